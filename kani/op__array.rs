#[cfg(any(kani, verif_replay))]
#[allow(dead_code, unused_imports, unused_variables, unused_macros, unused_mut, static_mut_refs)]
pub(crate) mod verif_array {
    use super::*;
    #[cfg(verif_replay)]
    use crate::verif_support::shim as kani;
    use crate::verif_support::*;
    use serde_json::Number;

    fn num(u: u64) -> Value {
        Value::Number(Number::from(u))
    }

    // =====================================================================================
    // C14 / C04 / C06: all, some with the evaluator by contract.
    //   node 0 = collection operand, node 1 = predicate (evaluated once per element: "multi" node),
    //   nodes 2.. = the element expressions of a literal-array collection (rule text).
    // Element values e_j and predicate answers p_j are independent symbolic u64 (truthy iff != 0).
    // =====================================================================================
    pub(crate) const M_LIT_ARRAY: u8 = 0; // collection written as a literal array of expressions
    pub(crate) const M_COMPUTED_NEW: u8 = 1; // collection is an operation evaluating to a fresh array
    pub(crate) const M_COMPUTED_RAW: u8 = 2; // ... to a borrowed array
    pub(crate) const M_LIT_NULL: u8 = 3;
    pub(crate) const M_COMPUTED_NULL: u8 = 4;
    pub(crate) const M_LIT_NUMBER: u8 = 5; // not a collection: error
    pub(crate) const M_COMPUTED_ERR: u8 = 6;
    pub(crate) const M_COMPUTED_BOOL: u8 = 7; // computed non-collection: error
    pub(crate) const M_COMPUTED_ZERO: u8 = 8; // computed FALSY non-collection (the number 0): still an error, not "empty"

    /// `epat` / `ppat`: bit j set = element j / predicate call j succeeds (Ok); clear = Err.
    pub(crate) fn body_quant(is_all: bool, mode: u8, n: usize, epat: u32, ppat: u32) {
        let e: [u64; 3] = [kani::any(), kani::any(), kani::any()];
        let p: [u64; 3] = [kani::any(), kani::any(), kani::any()];
        let data = MD::new(Value::Bool(true));
        let evals = [MD::new(num(e[0])), MD::new(num(e[1])), MD::new(num(e[2]))];
        let pvals = [MD::new(num(p[0])), MD::new(num(p[1])), MD::new(num(p[2]))];
        let mut elems: Vec<Value> = Vec::with_capacity(3);
        let mut i = 0;
        while i < n {
            // literal mode: the elements are rule text nodes (content irrelevant, evaluated by contract);
            // computed mode: the elements are DATA: numbers e_j
            elems.push(if mode == M_LIT_ARRAY { Value::Null } else { num(e[i]) });
            i += 1;
        }
        let computed_arr = MD::new(Value::Array(elems));
        let null_v = MD::new(Value::Null);
        let bool_v = MD::new(Value::Bool(true));
        let zero_v = MD::new(num(0));
        // node 0: the collection operand as written in the rule
        let coll_node: MD<Value> = match mode {
            M_LIT_ARRAY => {
                let mut v: Vec<Value> = Vec::with_capacity(3);
                let mut i = 0;
                while i < n {
                    v.push(Value::Null);
                    i += 1;
                }
                MD::new(Value::Array(v))
            }
            M_LIT_NULL => MD::new(Value::Null),
            M_LIT_NUMBER => MD::new(num(7)),
            _ => MD::new(Value::Object(Map::new())),
        };
        let pred_node = MD::new(Value::Null);
        let (cclass, cout): (u8, *const Value) = match mode {
            M_COMPUTED_NEW => (1, &*computed_arr as *const Value),
            M_COMPUTED_RAW => (2, &*computed_arr as *const Value),
            M_COMPUTED_NULL => (1, &*null_v as *const Value),
            M_COMPUTED_BOOL => (1, &*bool_v as *const Value),
            M_COMPUTED_ZERO => (1, &*zero_v as *const Value),
            M_COMPUTED_ERR => (0, &*null_v as *const Value),
            // a literal operand: if the body routes it through the evaluator it evaluates to itself
            _ => (2, &*coll_node as *const Value),
        };
        ev::register(&coll_node, cclass, cout);
        let pn = ev::register(&pred_node, 1, &*null_v as *const Value);
        ev::set_multi(pn);
        ev::set_multi_outcome_num(0, if ppat & 1 == 1 { 1 } else { 0 }, &*pvals[0] as *const Value, p[0]);
        ev::set_multi_outcome_num(1, if (ppat >> 1) & 1 == 1 { 1 } else { 0 }, &*pvals[1] as *const Value, p[1]);
        ev::set_multi_outcome_num(2, if (ppat >> 2) & 1 == 1 { 1 } else { 0 }, &*pvals[2] as *const Value, p[2]);
        if mode == M_LIT_ARRAY {
            if let Value::Array(v) = &*coll_node {
                let mut j = 0;
                while j < n {
                    ev::register_num(&v[j], if (epat >> j) & 1 == 1 { if j % 2 == 0 { 1 } else { 2 } } else { 0 }, &*evals[j] as *const Value, e[j]);
                    j += 1;
                }
            }
        }
        let mut args: Vec<&Value> = Vec::with_capacity(2);
        args.push(&*coll_node);
        args.push(&*pred_node);
        let args = MD::new(args);
        let r = MD::new(if is_all { all(&data, &args) } else { some(&data, &args) });
        kani::cover!(true, "returned");

        // ---- spec
        let mut want: Result<bool, ()> = Ok(false);
        let mut log_node = [0usize; 8];
        let mut log_fp = [0u64; 8];
        let mut k = 0;
        let outer_fp = ev::fingerprint(&data);
        let computed = mode != M_LIT_ARRAY && mode != M_LIT_NULL && mode != M_LIT_NUMBER;
        if computed {
            log_node[k] = 0;
            log_fp[k] = outer_fp;
            k += 1;
        }
        let is_collection = mode == M_LIT_ARRAY || mode == M_COMPUTED_NEW || mode == M_COMPUTED_RAW;
        if mode == M_COMPUTED_ERR || mode == M_LIT_NUMBER || mode == M_COMPUTED_BOOL || mode == M_COMPUTED_ZERO {
            want = Err(());
        } else if !is_collection || n == 0 {
            want = Ok(false); // null and empty collections
        } else {
            let mut acc = is_all;
            let mut j = 0;
            want = Ok(is_all);
            while j < n {
                if mode == M_LIT_ARRAY {
                    // the element expression is evaluated against the OUTER data first
                    log_node[k] = 2 + j;
                    log_fp[k] = outer_fp;
                    k += 1;
                    if (epat >> j) & 1 == 0 {
                        want = Err(());
                        break;
                    }
                }
                // then the predicate sees the element's value as its data
                log_node[k] = pn;
                log_fp[k] = e[j];
                k += 1;
                if (ppat >> j) & 1 == 0 {
                    want = Err(());
                    break;
                }
                let t = p[j] != 0;
                if is_all && !t {
                    want = Ok(false);
                    break;
                }
                if !is_all && t {
                    want = Ok(true);
                    break;
                }
                j += 1;
            }
        }
        match (&*r, want) {
            (Ok(Value::Bool(b)), Ok(w)) => assert!(*b == w, "all/some: wrong truth value (non-empty-and-every / at-least-one over the predicate's truthiness)"),
            (Err(_), Err(())) => {}
            _ => assert!(false, "all/some: error vs value differs from the spec (null/empty => false, non-collection => error, first error propagates)"),
        }
        // a LITERAL collection operand may or may not have been passed through the evaluator first (it evaluates to
        // itself either way; unobservable): accept one leading evaluation of node 0 against the outer data
        let off = if !computed && ev::log_len() == k + 1 && ev::log_at(0).0 == 0 && unsafe { ev::LOG_DATA_FP[0] } == outer_fp { 1 } else { 0 };
        assert!(ev::log_len() == k + off, "all/some: evaluation log length differs (short-circuit at the first deciding element; each expression at most once)");
        let mut q = 0;
        while q < k {
            let (node, _) = ev::log_at(q + off);
            assert!(node == log_node[q], "all/some: evaluation order differs from the spec");
            assert!(unsafe { ev::LOG_DATA_FP[q + off] } == log_fp[q], "all/some: wrong data: literal elements are evaluated against the outer data, the predicate against the element's value");
            q += 1;
        }
    }
    macro_rules! quant_harness {
        ($name:ident, $is_all:expr, $mode:expr, $n:expr, $epat:expr, $ppat:expr, $uw:expr) => {
            #[cfg_attr(kani, kani::proof)]
            #[cfg_attr(kani, kani::unwind($uw))]
            #[cfg_attr(kani, kani::stub(<serde_json::Value as std::clone::Clone>::clone, crate::verif_support::value_clone_shallow))]
            #[cfg_attr(kani, kani::stub(crate::value::Parsed::from_value, crate::value::Parsed::verif_from_value_stub))]
            #[cfg_attr(kani, kani::stub(crate::value::Parsed::evaluate, crate::value::Parsed::verif_evaluate_stub))]
            #[cfg_attr(kani, kani::stub(std::fmt::format, crate::verif_support::fmt_stub))]
            pub(crate) fn $name() {
                body_quant($is_all, $mode, $n, $epat, $ppat);
            }
        };
    }
//@GENERATED-QUANT
    //@ob name=C14.all.lit.2.e3.p3 harness=k_c14_all_lit_2_e3_p3 props=C14,C04,C06,C01 tier=off strength=bounded bound="collection written as a literal array of expressions; 2 elements; element/predicate success pattern e=0b11 p=0b11; values and predicate answers symbolic" fns=op::array::all stubs=4 timeout=200 cutdrop=1 group=medium
    //@ desc="all: truth value, error cases, short-circuit evaluation log and scoping (literal-array elements evaluated against the outer data, computed elements passed as data UNPARSED, predicate sees the element) equal the spec"
    quant_harness!(k_c14_all_lit_2_e3_p3, true, 0, 2, 3, 3, 5);
    //@ob name=C14.all.cnew.2.e3.p3 harness=k_c14_all_cnew_2_e3_p3 props=C14,C04,C06,C01 tier=off strength=bounded bound="collection computed (fresh array); 2 elements; element/predicate success pattern e=0b11 p=0b11; values and predicate answers symbolic" fns=op::array::all stubs=4 timeout=200 cutdrop=2 group=medium
    //@ desc="all: truth value, error cases, short-circuit evaluation log and scoping (literal-array elements evaluated against the outer data, computed elements passed as data UNPARSED, predicate sees the element) equal the spec"
    quant_harness!(k_c14_all_cnew_2_e3_p3, true, 1, 2, 3, 3, 5);
    //@ob name=C14.all.craw.1.e1.p1 harness=k_c14_all_craw_1_e1_p1 props=C14,C04,C06,C01 tier=off strength=bounded bound="collection computed (borrowed array); 1 elements; element/predicate success pattern e=0b1 p=0b1; values and predicate answers symbolic" fns=op::array::all stubs=4 timeout=200 cutdrop=2 group=medium
    //@ desc="all: truth value, error cases, short-circuit evaluation log and scoping (literal-array elements evaluated against the outer data, computed elements passed as data UNPARSED, predicate sees the element) equal the spec"
    quant_harness!(k_c14_all_craw_1_e1_p1, true, 2, 1, 1, 1, 4);
    //@ob name=C14.all.lit.0.e0.p0 harness=k_c14_all_lit_0_e0_p0 props=C14,C04,C06,C01 tier=quick strength=bounded bound="empty literal array; 0 elements; element/predicate success pattern e=0b0 p=0b0; values and predicate answers symbolic" fns=op::array::all stubs=4 timeout=200 cutdrop=1 group=medium
    //@ desc="all: truth value, error cases, short-circuit evaluation log and scoping (literal-array elements evaluated against the outer data, computed elements passed as data UNPARSED, predicate sees the element) equal the spec"
    quant_harness!(k_c14_all_lit_0_e0_p0, true, 0, 0, 0, 0, 3);
    //@ob name=C14.all.lit.1.e1.p1 harness=k_c14_all_lit_1_e1_p1 props=C14,C04,C06,C01 tier=off strength=bounded bound="literal array of one expression; 1 elements; element/predicate success pattern e=0b1 p=0b1; values and predicate answers symbolic" fns=op::array::all stubs=4 timeout=200 cutdrop=1 group=medium
    //@ desc="all: truth value, error cases, short-circuit evaluation log and scoping (literal-array elements evaluated against the outer data, computed elements passed as data UNPARSED, predicate sees the element) equal the spec"
    quant_harness!(k_c14_all_lit_1_e1_p1, true, 0, 1, 1, 1, 4);
    //@ob name=C14.all.cnew.1.e1.p1 harness=k_c14_all_cnew_1_e1_p1 props=C14,C04,C06,C01 tier=off strength=bounded bound="computed array of one (fresh); 1 elements; element/predicate success pattern e=0b1 p=0b1; values and predicate answers symbolic" fns=op::array::all stubs=4 timeout=200 cutdrop=2 group=medium
    //@ desc="all: truth value, error cases, short-circuit evaluation log and scoping (literal-array elements evaluated against the outer data, computed elements passed as data UNPARSED, predicate sees the element) equal the spec"
    quant_harness!(k_c14_all_cnew_1_e1_p1, true, 1, 1, 1, 1, 4);
    //@ob name=C14.all.litnull.0.e0.p0 harness=k_c14_all_litnull_0_e0_p0 props=C14,C04,C06,C01 tier=quick strength=bounded bound="literal null; 0 elements; element/predicate success pattern e=0b0 p=0b0; values and predicate answers symbolic" fns=op::array::all stubs=4 timeout=200 cutdrop=1 group=medium
    //@ desc="all: truth value, error cases, short-circuit evaluation log and scoping (literal-array elements evaluated against the outer data, computed elements passed as data UNPARSED, predicate sees the element) equal the spec"
    quant_harness!(k_c14_all_litnull_0_e0_p0, true, 3, 0, 0, 0, 3);
    //@ob name=C14.all.cnull.0.e0.p0 harness=k_c14_all_cnull_0_e0_p0 props=C14,C04,C06,C01 tier=quick strength=bounded bound="computed null; 0 elements; element/predicate success pattern e=0b0 p=0b0; values and predicate answers symbolic" fns=op::array::all stubs=4 timeout=200 cutdrop=2 group=medium
    //@ desc="all: truth value, error cases, short-circuit evaluation log and scoping (literal-array elements evaluated against the outer data, computed elements passed as data UNPARSED, predicate sees the element) equal the spec"
    quant_harness!(k_c14_all_cnull_0_e0_p0, true, 4, 0, 0, 0, 3);
    //@ob name=C14.all.litnum.0.e0.p0 harness=k_c14_all_litnum_0_e0_p0 props=C14,C04,C06,C01 tier=quick strength=bounded bound="literal number (not a collection); 0 elements; element/predicate success pattern e=0b0 p=0b0; values and predicate answers symbolic" fns=op::array::all stubs=4 timeout=200 cutdrop=1 group=medium
    //@ desc="all: truth value, error cases, short-circuit evaluation log and scoping (literal-array elements evaluated against the outer data, computed elements passed as data UNPARSED, predicate sees the element) equal the spec"
    quant_harness!(k_c14_all_litnum_0_e0_p0, true, 5, 0, 0, 0, 3);
    //@ob name=C14.all.cerr.0.e0.p0 harness=k_c14_all_cerr_0_e0_p0 props=C14,C04,C06,C01 tier=off strength=bounded bound="collection evaluation fails; 0 elements; element/predicate success pattern e=0b0 p=0b0; values and predicate answers symbolic" fns=op::array::all stubs=4 timeout=200 cutdrop=2 group=medium
    //@ desc="all: truth value, error cases, short-circuit evaluation log and scoping (literal-array elements evaluated against the outer data, computed elements passed as data UNPARSED, predicate sees the element) equal the spec"
    quant_harness!(k_c14_all_cerr_0_e0_p0, true, 6, 0, 0, 0, 3);
    //@ob name=C14.all.cbool.0.e0.p0 harness=k_c14_all_cbool_0_e0_p0 props=C14,C04,C06,C01 tier=thorough strength=bounded bound="computed boolean (not a collection); 0 elements; element/predicate success pattern e=0b0 p=0b0; values and predicate answers symbolic" fns=op::array::all stubs=4 timeout=200 cutdrop=2 group=medium
    //@ desc="all: truth value, error cases, short-circuit evaluation log and scoping (literal-array elements evaluated against the outer data, computed elements passed as data UNPARSED, predicate sees the element) equal the spec"
    quant_harness!(k_c14_all_cbool_0_e0_p0, true, 7, 0, 0, 0, 3);
    //@ob name=C14.all.czero.0.e0.p0 harness=k_c14_all_czero_0_e0_p0 props=C14,C04,C06,C01 tier=quick strength=bounded bound="computed number 0 (falsy, but not a collection: an error, not empty); 0 elements; element/predicate success pattern e=0b0 p=0b0; values and predicate answers symbolic" fns=op::array::all stubs=4 timeout=200 cutdrop=2 group=medium
    //@ desc="all: truth value, error cases, short-circuit evaluation log and scoping (literal-array elements evaluated against the outer data, computed elements passed as data UNPARSED, predicate sees the element) equal the spec"
    quant_harness!(k_c14_all_czero_0_e0_p0, true, 8, 0, 0, 0, 3);
    //@ob name=C14.all.lit.2.e1.p3 harness=k_c14_all_lit_2_e1_p3 props=C14,C04,C06,C01 tier=off strength=bounded bound="literal array, second element expression fails; 2 elements; element/predicate success pattern e=0b1 p=0b11; values and predicate answers symbolic" fns=op::array::all stubs=4 timeout=200 cutdrop=1 group=medium
    //@ desc="all: truth value, error cases, short-circuit evaluation log and scoping (literal-array elements evaluated against the outer data, computed elements passed as data UNPARSED, predicate sees the element) equal the spec"
    quant_harness!(k_c14_all_lit_2_e1_p3, true, 0, 2, 1, 3, 5);
    //@ob name=C14.all.cnew.2.e3.p1 harness=k_c14_all_cnew_2_e3_p1 props=C14,C04,C06,C01 tier=off strength=bounded bound="computed array, second predicate call fails; 2 elements; element/predicate success pattern e=0b11 p=0b1; values and predicate answers symbolic" fns=op::array::all stubs=4 timeout=200 cutdrop=2 group=medium
    //@ desc="all: truth value, error cases, short-circuit evaluation log and scoping (literal-array elements evaluated against the outer data, computed elements passed as data UNPARSED, predicate sees the element) equal the spec"
    quant_harness!(k_c14_all_cnew_2_e3_p1, true, 1, 2, 3, 1, 5);
    //@ob name=C14.all.lit.3.e7.p7 harness=k_c14_all_lit_3_e7_p7 props=C14,C04,C06,C01 tier=off strength=bounded bound="literal array of three; 3 elements; element/predicate success pattern e=0b111 p=0b111; values and predicate answers symbolic" fns=op::array::all stubs=4 timeout=200 cutdrop=1 group=medium
    //@ desc="all: truth value, error cases, short-circuit evaluation log and scoping (literal-array elements evaluated against the outer data, computed elements passed as data UNPARSED, predicate sees the element) equal the spec"
    quant_harness!(k_c14_all_lit_3_e7_p7, true, 0, 3, 7, 7, 6);
    //@ob name=C14.all.cnew.3.e7.p7 harness=k_c14_all_cnew_3_e7_p7 props=C14,C04,C06,C01 tier=off strength=bounded bound="computed array of three; 3 elements; element/predicate success pattern e=0b111 p=0b111; values and predicate answers symbolic" fns=op::array::all stubs=4 timeout=200 cutdrop=2 group=medium
    //@ desc="all: truth value, error cases, short-circuit evaluation log and scoping (literal-array elements evaluated against the outer data, computed elements passed as data UNPARSED, predicate sees the element) equal the spec"
    quant_harness!(k_c14_all_cnew_3_e7_p7, true, 1, 3, 7, 7, 6);
    //@ob name=C14.some.lit.2.e3.p3 harness=k_c14_some_lit_2_e3_p3 props=C14,C04,C06,C01 tier=off strength=bounded bound="collection written as a literal array of expressions; 2 elements; element/predicate success pattern e=0b11 p=0b11; values and predicate answers symbolic" fns=op::array::some stubs=4 timeout=200 cutdrop=1 group=medium
    //@ desc="some: truth value, error cases, short-circuit evaluation log and scoping (literal-array elements evaluated against the outer data, computed elements passed as data UNPARSED, predicate sees the element) equal the spec"
    quant_harness!(k_c14_some_lit_2_e3_p3, false, 0, 2, 3, 3, 5);
    //@ob name=C14.some.cnew.2.e3.p3 harness=k_c14_some_cnew_2_e3_p3 props=C14,C04,C06,C01 tier=off strength=bounded bound="collection computed (fresh array); 2 elements; element/predicate success pattern e=0b11 p=0b11; values and predicate answers symbolic" fns=op::array::some stubs=4 timeout=200 cutdrop=2 group=medium
    //@ desc="some: truth value, error cases, short-circuit evaluation log and scoping (literal-array elements evaluated against the outer data, computed elements passed as data UNPARSED, predicate sees the element) equal the spec"
    quant_harness!(k_c14_some_cnew_2_e3_p3, false, 1, 2, 3, 3, 5);
    //@ob name=C14.some.craw.1.e1.p1 harness=k_c14_some_craw_1_e1_p1 props=C14,C04,C06,C01 tier=off strength=bounded bound="collection computed (borrowed array); 1 elements; element/predicate success pattern e=0b1 p=0b1; values and predicate answers symbolic" fns=op::array::some stubs=4 timeout=200 cutdrop=2 group=medium
    //@ desc="some: truth value, error cases, short-circuit evaluation log and scoping (literal-array elements evaluated against the outer data, computed elements passed as data UNPARSED, predicate sees the element) equal the spec"
    quant_harness!(k_c14_some_craw_1_e1_p1, false, 2, 1, 1, 1, 4);
    //@ob name=C14.some.lit.0.e0.p0 harness=k_c14_some_lit_0_e0_p0 props=C14,C04,C06,C01 tier=quick strength=bounded bound="empty literal array; 0 elements; element/predicate success pattern e=0b0 p=0b0; values and predicate answers symbolic" fns=op::array::some stubs=4 timeout=200 cutdrop=1 group=medium
    //@ desc="some: truth value, error cases, short-circuit evaluation log and scoping (literal-array elements evaluated against the outer data, computed elements passed as data UNPARSED, predicate sees the element) equal the spec"
    quant_harness!(k_c14_some_lit_0_e0_p0, false, 0, 0, 0, 0, 3);
    //@ob name=C14.some.lit.1.e1.p1 harness=k_c14_some_lit_1_e1_p1 props=C14,C04,C06,C01 tier=off strength=bounded bound="literal array of one expression; 1 elements; element/predicate success pattern e=0b1 p=0b1; values and predicate answers symbolic" fns=op::array::some stubs=4 timeout=200 cutdrop=1 group=medium
    //@ desc="some: truth value, error cases, short-circuit evaluation log and scoping (literal-array elements evaluated against the outer data, computed elements passed as data UNPARSED, predicate sees the element) equal the spec"
    quant_harness!(k_c14_some_lit_1_e1_p1, false, 0, 1, 1, 1, 4);
    //@ob name=C14.some.cnew.1.e1.p1 harness=k_c14_some_cnew_1_e1_p1 props=C14,C04,C06,C01 tier=off strength=bounded bound="computed array of one (fresh); 1 elements; element/predicate success pattern e=0b1 p=0b1; values and predicate answers symbolic" fns=op::array::some stubs=4 timeout=200 cutdrop=2 group=medium
    //@ desc="some: truth value, error cases, short-circuit evaluation log and scoping (literal-array elements evaluated against the outer data, computed elements passed as data UNPARSED, predicate sees the element) equal the spec"
    quant_harness!(k_c14_some_cnew_1_e1_p1, false, 1, 1, 1, 1, 4);
    //@ob name=C14.some.litnull.0.e0.p0 harness=k_c14_some_litnull_0_e0_p0 props=C14,C04,C06,C01 tier=quick strength=bounded bound="literal null; 0 elements; element/predicate success pattern e=0b0 p=0b0; values and predicate answers symbolic" fns=op::array::some stubs=4 timeout=200 cutdrop=1 group=medium
    //@ desc="some: truth value, error cases, short-circuit evaluation log and scoping (literal-array elements evaluated against the outer data, computed elements passed as data UNPARSED, predicate sees the element) equal the spec"
    quant_harness!(k_c14_some_litnull_0_e0_p0, false, 3, 0, 0, 0, 3);
    //@ob name=C14.some.cnull.0.e0.p0 harness=k_c14_some_cnull_0_e0_p0 props=C14,C04,C06,C01 tier=quick strength=bounded bound="computed null; 0 elements; element/predicate success pattern e=0b0 p=0b0; values and predicate answers symbolic" fns=op::array::some stubs=4 timeout=200 cutdrop=2 group=medium
    //@ desc="some: truth value, error cases, short-circuit evaluation log and scoping (literal-array elements evaluated against the outer data, computed elements passed as data UNPARSED, predicate sees the element) equal the spec"
    quant_harness!(k_c14_some_cnull_0_e0_p0, false, 4, 0, 0, 0, 3);
    //@ob name=C14.some.litnum.0.e0.p0 harness=k_c14_some_litnum_0_e0_p0 props=C14,C04,C06,C01 tier=quick strength=bounded bound="literal number (not a collection); 0 elements; element/predicate success pattern e=0b0 p=0b0; values and predicate answers symbolic" fns=op::array::some stubs=4 timeout=200 cutdrop=1 group=medium
    //@ desc="some: truth value, error cases, short-circuit evaluation log and scoping (literal-array elements evaluated against the outer data, computed elements passed as data UNPARSED, predicate sees the element) equal the spec"
    quant_harness!(k_c14_some_litnum_0_e0_p0, false, 5, 0, 0, 0, 3);
    //@ob name=C14.some.cerr.0.e0.p0 harness=k_c14_some_cerr_0_e0_p0 props=C14,C04,C06,C01 tier=off strength=bounded bound="collection evaluation fails; 0 elements; element/predicate success pattern e=0b0 p=0b0; values and predicate answers symbolic" fns=op::array::some stubs=4 timeout=200 cutdrop=2 group=medium
    //@ desc="some: truth value, error cases, short-circuit evaluation log and scoping (literal-array elements evaluated against the outer data, computed elements passed as data UNPARSED, predicate sees the element) equal the spec"
    quant_harness!(k_c14_some_cerr_0_e0_p0, false, 6, 0, 0, 0, 3);
    //@ob name=C14.some.cbool.0.e0.p0 harness=k_c14_some_cbool_0_e0_p0 props=C14,C04,C06,C01 tier=thorough strength=bounded bound="computed boolean (not a collection); 0 elements; element/predicate success pattern e=0b0 p=0b0; values and predicate answers symbolic" fns=op::array::some stubs=4 timeout=200 cutdrop=2 group=medium
    //@ desc="some: truth value, error cases, short-circuit evaluation log and scoping (literal-array elements evaluated against the outer data, computed elements passed as data UNPARSED, predicate sees the element) equal the spec"
    quant_harness!(k_c14_some_cbool_0_e0_p0, false, 7, 0, 0, 0, 3);
    //@ob name=C14.some.czero.0.e0.p0 harness=k_c14_some_czero_0_e0_p0 props=C14,C04,C06,C01 tier=quick strength=bounded bound="computed number 0 (falsy, but not a collection: an error, not empty); 0 elements; element/predicate success pattern e=0b0 p=0b0; values and predicate answers symbolic" fns=op::array::some stubs=4 timeout=200 cutdrop=2 group=medium
    //@ desc="some: truth value, error cases, short-circuit evaluation log and scoping (literal-array elements evaluated against the outer data, computed elements passed as data UNPARSED, predicate sees the element) equal the spec"
    quant_harness!(k_c14_some_czero_0_e0_p0, false, 8, 0, 0, 0, 3);
    //@ob name=C14.some.lit.2.e1.p3 harness=k_c14_some_lit_2_e1_p3 props=C14,C04,C06,C01 tier=off strength=bounded bound="literal array, second element expression fails; 2 elements; element/predicate success pattern e=0b1 p=0b11; values and predicate answers symbolic" fns=op::array::some stubs=4 timeout=200 cutdrop=1 group=medium
    //@ desc="some: truth value, error cases, short-circuit evaluation log and scoping (literal-array elements evaluated against the outer data, computed elements passed as data UNPARSED, predicate sees the element) equal the spec"
    quant_harness!(k_c14_some_lit_2_e1_p3, false, 0, 2, 1, 3, 5);
    //@ob name=C14.some.cnew.2.e3.p1 harness=k_c14_some_cnew_2_e3_p1 props=C14,C04,C06,C01 tier=off strength=bounded bound="computed array, second predicate call fails; 2 elements; element/predicate success pattern e=0b11 p=0b1; values and predicate answers symbolic" fns=op::array::some stubs=4 timeout=200 cutdrop=2 group=medium
    //@ desc="some: truth value, error cases, short-circuit evaluation log and scoping (literal-array elements evaluated against the outer data, computed elements passed as data UNPARSED, predicate sees the element) equal the spec"
    quant_harness!(k_c14_some_cnew_2_e3_p1, false, 1, 2, 3, 1, 5);
    //@ob name=C14.some.lit.3.e7.p7 harness=k_c14_some_lit_3_e7_p7 props=C14,C04,C06,C01 tier=off strength=bounded bound="literal array of three; 3 elements; element/predicate success pattern e=0b111 p=0b111; values and predicate answers symbolic" fns=op::array::some stubs=4 timeout=200 cutdrop=1 group=medium
    //@ desc="some: truth value, error cases, short-circuit evaluation log and scoping (literal-array elements evaluated against the outer data, computed elements passed as data UNPARSED, predicate sees the element) equal the spec"
    quant_harness!(k_c14_some_lit_3_e7_p7, false, 0, 3, 7, 7, 6);
    //@ob name=C14.some.cnew.3.e7.p7 harness=k_c14_some_cnew_3_e7_p7 props=C14,C04,C06,C01 tier=off strength=bounded bound="computed array of three; 3 elements; element/predicate success pattern e=0b111 p=0b111; values and predicate answers symbolic" fns=op::array::some stubs=4 timeout=200 cutdrop=2 group=medium
    //@ desc="some: truth value, error cases, short-circuit evaluation log and scoping (literal-array elements evaluated against the outer data, computed elements passed as data UNPARSED, predicate sees the element) equal the spec"
    quant_harness!(k_c14_some_cnew_3_e7_p7, false, 1, 3, 7, 7, 6);
//@END-GENERATED-QUANT

    // ---- all / some over a STRING collection: one element per Unicode character (Chars by contract)
    pub(crate) fn body_quant_string(is_all: bool, l: usize, ppat: u32) {
        use crate::verif_support::chars_contract as cc;
        cc::reset(l);
        let p: [u64; 3] = [kani::any(), kani::any(), kani::any()];
        let data = MD::new(Value::Bool(true));
        let pvals = [MD::new(num(p[0])), MD::new(num(p[1])), MD::new(num(p[2]))];
        let null_v = MD::new(Value::Null);
        let coll_node = MD::new(Value::String(String::from(cc::real_text(l))));
        let pred_node = MD::new(Value::Null);
        ev::register(&coll_node, 2, &*null_v as *const Value);
        let pn = ev::register(&pred_node, 1, &*null_v as *const Value);
        ev::set_multi(pn);
        ev::set_multi_outcome_num(0, if ppat & 1 == 1 { 1 } else { 0 }, &*pvals[0] as *const Value, p[0]);
        ev::set_multi_outcome_num(1, if (ppat >> 1) & 1 == 1 { 1 } else { 0 }, &*pvals[1] as *const Value, p[1]);
        ev::set_multi_outcome_num(2, if (ppat >> 2) & 1 == 1 { 1 } else { 0 }, &*pvals[2] as *const Value, p[2]);
        let mut args: Vec<&Value> = Vec::with_capacity(2);
        args.push(&*coll_node);
        args.push(&*pred_node);
        let args = MD::new(args);
        let r = MD::new(if is_all { all(&data, &args) } else { some(&data, &args) });
        kani::cover!(true, "returned");
        // spec: the elements are the characters, in order; empty string => false
        let mut want: Result<bool, ()> = if l == 0 { Ok(false) } else { Ok(is_all) };
        let mut k = 0;
        let mut j = 0;
        while j < l {
            k += 1;
            if (ppat >> j) & 1 == 0 {
                want = Err(());
                break;
            }
            let t = p[j] != 0;
            if is_all && !t {
                want = Ok(false);
                break;
            }
            if !is_all && t {
                want = Ok(true);
                break;
            }
            j += 1;
        }
        match (&*r, want) {
            (Ok(Value::Bool(b)), Ok(w)) => assert!(*b == w, "all/some over a string: wrong truth value"),
            (Err(_), Err(())) => {}
            _ => assert!(false, "all/some over a string: error vs value differs from the spec"),
        }
        assert!(ev::log_len() == k, "all/some over a string: the predicate is evaluated once per CHARACTER until the deciding one");
        let mut q = 0;
        while q < k {
            let mut one = String::with_capacity(4);
            one.push(cc::abstract_char(q));
            let expect = ev::fingerprint(&Value::String(one));
            assert!(ev::log_at(q).0 == pn && unsafe { ev::LOG_DATA_FP[q] } == expect, "all/some over a string: the predicate sees one Unicode character at a time, in order");
            q += 1;
        }
    }
    macro_rules! quant_string_harness {
        ($name:ident, $is_all:expr, $l:expr, $ppat:expr) => {
            #[cfg_attr(kani, kani::proof)]
            #[cfg_attr(kani, kani::unwind(6))]
            #[cfg_attr(kani, kani::stub(<serde_json::Value as std::clone::Clone>::clone, crate::verif_support::value_clone_shallow))]
            #[cfg_attr(kani, kani::stub(crate::value::Parsed::from_value, crate::value::Parsed::verif_from_value_stub))]
            #[cfg_attr(kani, kani::stub(crate::value::Parsed::evaluate, crate::value::Parsed::verif_evaluate_stub))]
            #[cfg_attr(kani, kani::stub(<std::str::Chars<'_> as std::iter::Iterator>::next, crate::verif_support::chars_contract::CharsContract::next))]
            #[cfg_attr(kani, kani::stub(<std::str::Chars<'_> as std::iter::Iterator>::advance_by, crate::verif_support::chars_contract::CharsContract::advance_by))]
            #[cfg_attr(kani, kani::stub(std::fmt::format, crate::verif_support::fmt_stub))]
            pub(crate) fn $name() {
                body_quant_string($is_all, $l, $ppat);
            }
        };
    }
    //@ob name=C14.all.string.0 harness=k_c14_all_string_0 props=C14,C04,C01 strength=bounded bound="the empty string" fns=op::array::all stubs=6 timeout=400 cutdrop=2 group=heavy
    //@ desc="all over an empty string is false"
    quant_string_harness!(k_c14_all_string_0, true, 0, 0);
    //@ob name=C14.all.string.2 harness=k_c14_all_string_2 props=C14,C04,C06,C01 tier=off strength=bounded bound="a 2-character string (1-byte and 4-byte characters; Chars by contract); predicate answers symbolic" fns=op::array::all stubs=6 timeout=600 cutdrop=2 group=heavy
    //@ desc="all over a string: one element per Unicode character, in order, predicate sees the character; true iff every answer is truthy; short-circuit at the first falsy"
    quant_string_harness!(k_c14_all_string_2, true, 2, 3);
    //@ob name=C14.some.string.2 harness=k_c14_some_string_2 props=C14,C04,C06,C01 tier=off strength=bounded bound="a 2-character string (1-byte and 4-byte characters; Chars by contract); predicate answers symbolic" fns=op::array::some stubs=6 timeout=600 cutdrop=2 group=heavy
    //@ desc="some over a string: one element per Unicode character; true iff some answer is truthy; short-circuit at the first truthy"
    quant_string_harness!(k_c14_some_string_2, false, 2, 3);

    // ---- none == !some (some by contract: an arbitrary Result<Bool>)
    pub(crate) static mut SOME_PLAN: u8 = 0;
    pub(crate) fn some_stub(_data: &Value, _args: &Vec<&Value>) -> Result<Value, Error> {
        match unsafe { SOME_PLAN } {
            0 => Err(Error::UnexpectedError(String::new())),
            1 => Ok(Value::Bool(true)),
            _ => Ok(Value::Bool(false)),
        }
    }
    macro_rules! none_harness {
        ($name:ident, $plan:expr) => {
            #[cfg_attr(kani, kani::proof)]
            #[cfg_attr(kani, kani::stub(crate::op::array::some, some_stub))]
            #[cfg_attr(kani, kani::stub(std::fmt::format, crate::verif_support::fmt_stub))]
            pub(crate) fn $name() {
                unsafe { SOME_PLAN = $plan };
                let data = MD::new(Value::Null);
                let args: MD<Vec<&Value>> = MD::new(Vec::new());
                let r = MD::new(none(&data, &args));
                kani::cover!(true, "returned");
                match (&*r, $plan) {
                    (Err(_), 0) => {}
                    (Ok(Value::Bool(b)), 1) => assert!(!*b, "none must be the exact negation of some"),
                    (Ok(Value::Bool(b)), 2) => assert!(*b, "none must be the exact negation of some"),
                    _ => assert!(false, "none: Err iff some is Err, otherwise the negated boolean"),
                }
            }
        };
    }
    //@ob name=C14.none.err harness=k_c14_none_err props=C14,C01 strength=complete fns=op::array::none stubs=2 cutdrop=1 timeout=200
    //@ desc="none(data,args) is Err when some(data,args) is Err (some by contract)"
    none_harness!(k_c14_none_err, 0);
    //@ob name=C14.none.true harness=k_c14_none_true props=C14,C01 strength=complete fns=op::array::none stubs=2 cutdrop=1 timeout=200
    //@ desc="none is false when some is true"
    none_harness!(k_c14_none_true, 1);
    //@ob name=C14.none.false harness=k_c14_none_false props=C14,C01 strength=complete fns=op::array::none stubs=2 cutdrop=1 timeout=200
    //@ desc="none is true when some is false"
    none_harness!(k_c14_none_false, 2);

    // =====================================================================================
    // C13: map / filter (node 0 = collection operand, node 1 = expression, evaluated per element)
    // =====================================================================================
    pub(crate) const C_ARR_NEW: u8 = 0;
    pub(crate) const C_ARR_RAW: u8 = 1;
    pub(crate) const C_NULL: u8 = 2;
    pub(crate) const C_OTHER: u8 = 3; // a number: not an array -> error
    pub(crate) const C_ERR: u8 = 4;

    pub(crate) fn body_mapfilter(is_map: bool, cmode: u8, n: usize, ppat: u32) {
        let e: [u64; 3] = [kani::any(), kani::any(), kani::any()];
        let p: [u64; 3] = [kani::any(), kani::any(), kani::any()];
        let data = MD::new(Value::Bool(true));
        let pvals = [MD::new(num(p[0])), MD::new(num(p[1])), MD::new(num(p[2]))];
        let mut elems: Vec<Value> = Vec::with_capacity(3);
        let mut i = 0;
        while i < n {
            elems.push(num(e[i]));
            i += 1;
        }
        let arr = MD::new(Value::Array(elems));
        let null_v = MD::new(Value::Null);
        let other_v = MD::new(num(5));
        let coll_node = MD::new(Value::Null);
        let expr_node = MD::new(Value::Null);
        let (cclass, cout): (u8, *const Value) = match cmode {
            C_ARR_NEW => (1, &*arr as *const Value),
            C_ARR_RAW => (2, &*arr as *const Value),
            C_NULL => (2, &*null_v as *const Value),
            C_OTHER => (1, &*other_v as *const Value),
            _ => (0, &*null_v as *const Value),
        };
        ev::register(&coll_node, cclass, cout);
        let xn = ev::register(&expr_node, 1, &*null_v as *const Value);
        ev::set_multi(xn);
        ev::set_multi_outcome_num(0, if ppat & 1 == 1 { 1 } else { 0 }, &*pvals[0] as *const Value, p[0]);
        ev::set_multi_outcome_num(1, if (ppat >> 1) & 1 == 1 { 2 } else { 0 }, &*pvals[1] as *const Value, p[1]);
        ev::set_multi_outcome_num(2, if (ppat >> 2) & 1 == 1 { 1 } else { 0 }, &*pvals[2] as *const Value, p[2]);
        let mut args: Vec<&Value> = Vec::with_capacity(2);
        args.push(&*coll_node);
        args.push(&*expr_node);
        let args = MD::new(args);
        let r = MD::new(if is_map { map(&data, &args) } else { filter(&data, &args) });
        kani::cover!(true, "returned");

        // ---- spec
        let outer_fp = ev::fingerprint(&data);
        let mut k = 1; // the collection, once, against the outer data
        let m = if cmode == C_ARR_NEW || cmode == C_ARR_RAW { n } else { 0 };
        let mut err = cmode == C_OTHER || cmode == C_ERR;
        let mut calls = 0;
        if !err {
            while calls < m {
                calls += 1;
                if (ppat >> (calls - 1)) & 1 == 0 {
                    err = true;
                    break;
                }
            }
        }
        match &*r {
            Err(_) => assert!(err, "map/filter: error although the collection is an array/null and every evaluation succeeds"),
            Ok(Value::Array(out)) => {
                assert!(!err, "map/filter: a value although the collection is not an array / an evaluation failed");
                if is_map {
                    assert!(out.len() == m, "map: result must have exactly one value per element");
                    let mut j = 0;
                    while j < m {
                        assert!(matches!(&out[j], Value::Number(x) if ev::is_outcome_number(x, xn, p[j])), "map: result[j] must be the expression's value for element j, in order");
                        j += 1;
                    }
                } else {
                    // exactly the elements whose predicate value is truthy, unchanged, in order
                    let mut w = 0;
                    let mut j = 0;
                    while j < m {
                        if p[j] != 0 {
                            assert!(w < out.len() && matches!(&out[w], Value::Number(x) if x.as_u64() == Some(e[j])), "filter: kept elements must be the elements themselves, in order");
                            w += 1;
                        }
                        j += 1;
                    }
                    assert!(out.len() == w, "filter: an element whose predicate is falsy was kept");
                }
            }
            _ => assert!(false, "map/filter must return an array"),
        }
        // evaluation log: collection against outer data, then the expression once per element with the element as data
        assert!(ev::log_len() == 1 + calls, "map/filter: expression must be evaluated exactly once per element (until the first error)");
        assert!(ev::log_at(0).0 == 0 && unsafe { ev::LOG_DATA_FP[0] } == outer_fp, "map/filter: the collection is evaluated first, against the outer data");
        let mut q = 0;
        while q < calls {
            assert!(ev::log_at(1 + q).0 == xn, "map/filter: only the expression is evaluated per element");
            assert!(unsafe { ev::LOG_DATA_FP[1 + q] } == e[q], "map/filter: inside the expression the element itself is the data, in order");
            q += 1;
        }
    }
    macro_rules! mapfilter_harness {
        ($name:ident, $is_map:expr, $cmode:expr, $n:expr, $ppat:expr, $uw:expr) => {
            #[cfg_attr(kani, kani::proof)]
            #[cfg_attr(kani, kani::unwind($uw))]
            #[cfg_attr(kani, kani::stub(<serde_json::Value as std::clone::Clone>::clone, crate::verif_support::value_clone_shallow))]
            #[cfg_attr(kani, kani::stub(crate::value::Parsed::from_value, crate::value::Parsed::verif_from_value_stub))]
            #[cfg_attr(kani, kani::stub(crate::value::Parsed::evaluate, crate::value::Parsed::verif_evaluate_stub))]
            #[cfg_attr(kani, kani::stub(std::fmt::format, crate::verif_support::fmt_stub))]
            pub(crate) fn $name() {
                body_mapfilter($is_map, $cmode, $n, $ppat);
            }
        };
    }
    // ---- reduce: collection and initial value evaluated once each against the OUTER data; a null collection
    // is empty, so the result is the initial value; other non-arrays / failing evaluations are errors
    pub(crate) fn body_reduce_dispatch(cmode: u8, init_ok: bool) {
        let iv: u64 = kani::any();
        let data = MD::new(Value::Bool(true));
        let null_v = MD::new(Value::Null);
        let other_v = MD::new(num(5));
        let init_v = MD::new(num(iv));
        let coll_node = MD::new(Value::Null);
        let expr_node = MD::new(Value::Null);
        let init_node = MD::new(Value::Null);
        let (cclass, cout): (u8, *const Value) = match cmode {
            C_NULL => (2, &*null_v as *const Value),
            C_OTHER => (1, &*other_v as *const Value),
            _ => (0, &*null_v as *const Value),
        };
        ev::register(&coll_node, cclass, cout);
        ev::register(&expr_node, 1, &*null_v as *const Value);
        ev::register_num(&init_node, if init_ok { 1 } else { 0 }, &*init_v as *const Value, iv);
        let mut args: Vec<&Value> = Vec::with_capacity(3);
        args.push(&*coll_node);
        args.push(&*expr_node);
        args.push(&*init_node);
        let args = MD::new(args);
        let r = MD::new(reduce(&data, &args));
        kani::cover!(true, "returned");
        let outer_fp = ev::fingerprint(&data);
        if cmode == C_NULL && init_ok {
            assert!(matches!(&*r, Ok(Value::Number(x)) if ev::is_outcome_number(x, 2, iv)), "reduce over a null (= empty) collection is the evaluated initial value");
        } else {
            assert!(r.is_err(), "reduce: a non-array collection or a failing evaluation is an error");
        }
        // every logged evaluation is of the collection or the initial value, against the outer data, at most once each
        let mut seen = [0u8; 3];
        let mut q = 0;
        while q < ev::log_len() {
            let (node, _) = ev::log_at(q);
            assert!(node != 1, "reduce: the step expression must not be evaluated when there is nothing to fold");
            assert!(unsafe { ev::LOG_DATA_FP[q] } == outer_fp, "reduce: collection and initial value are evaluated against the outer data");
            seen[node] += 1;
            q += 1;
        }
        assert!(seen[0] == 1 && seen[2] <= 1, "reduce: the collection is evaluated exactly once, the initial value at most once");
    }
    macro_rules! reduce_harness {
        ($name:ident, $cmode:expr, $init_ok:expr) => {
            #[cfg_attr(kani, kani::proof)]
            #[cfg_attr(kani, kani::unwind(5))]
            #[cfg_attr(kani, kani::stub(<serde_json::Value as std::clone::Clone>::clone, crate::verif_support::value_clone_shallow))]
            #[cfg_attr(kani, kani::stub(crate::value::Parsed::from_value, crate::value::Parsed::verif_from_value_stub))]
            #[cfg_attr(kani, kani::stub(crate::value::Parsed::evaluate, crate::value::Parsed::verif_evaluate_stub))]
            #[cfg_attr(kani, kani::stub(std::fmt::format, crate::verif_support::fmt_stub))]
            pub(crate) fn $name() {
                body_reduce_dispatch($cmode, $init_ok);
            }
        };
    }
    //@ob name=C13.reduce.null harness=k_c13_reduce_null props=C13,C04,C01 strength=bounded bound="null collection; initial value symbolic" fns=op::array::reduce stubs=4 timeout=300 cutdrop=2 group=medium
    //@ desc="reduce(null, expr, init) is the evaluated initial value (a null collection is empty); collection and initial value evaluated once against the outer data; the step expression is not evaluated"
    reduce_harness!(k_c13_reduce_null, C_NULL, true);
    //@ob name=C13.reduce.other harness=k_c13_reduce_other props=C13,C04,C01 strength=bounded bound="collection evaluates to a number" fns=op::array::reduce stubs=4 timeout=300 cutdrop=2 group=medium
    //@ desc="reduce over a non-array, non-null collection is an error"
    reduce_harness!(k_c13_reduce_other, C_OTHER, true);

//@GENERATED-MAPFILTER
    //@ob name=C13.map.new.2.p3 harness=k_c13_map_new_2_p3 props=C13,C04,C06,C01 tier=off strength=bounded bound="collection outcome new; 2 elements; expression success pattern 0b11; element values and expression values symbolic" fns=op::array::map stubs=4 timeout=300 cutdrop=2 group=medium
    //@ desc="map: collection evaluated once against the outer data, expression once per element with the element itself as data, in order; result = the expression values in order (same length); null collection is empty, other non-arrays and failing evaluations are errors"
    mapfilter_harness!(k_c13_map_new_2_p3, true, 0, 2, 3, 5);
    //@ob name=C13.map.raw.2.p3 harness=k_c13_map_raw_2_p3 props=C13,C04,C06,C01 tier=off strength=bounded bound="collection outcome raw; 2 elements; expression success pattern 0b11; element values and expression values symbolic" fns=op::array::map stubs=4 timeout=300 cutdrop=2 group=medium
    //@ desc="map: collection evaluated once against the outer data, expression once per element with the element itself as data, in order; result = the expression values in order (same length); null collection is empty, other non-arrays and failing evaluations are errors"
    mapfilter_harness!(k_c13_map_raw_2_p3, true, 1, 2, 3, 5);
    //@ob name=C13.map.null.0.p0 harness=k_c13_map_null_0_p0 props=C13,C04,C06,C01 tier=quick strength=bounded bound="collection outcome null; 0 elements; expression success pattern 0b0; element values and expression values symbolic" fns=op::array::map stubs=4 timeout=300 cutdrop=2 group=medium
    //@ desc="map: collection evaluated once against the outer data, expression once per element with the element itself as data, in order; result = the expression values in order (same length); null collection is empty, other non-arrays and failing evaluations are errors"
    mapfilter_harness!(k_c13_map_null_0_p0, true, 2, 0, 0, 3);
    //@ob name=C13.map.other.0.p0 harness=k_c13_map_other_0_p0 props=C13,C04,C06,C01 tier=quick strength=bounded bound="collection outcome other; 0 elements; expression success pattern 0b0; element values and expression values symbolic" fns=op::array::map stubs=4 timeout=300 cutdrop=2 group=medium
    //@ desc="map: collection evaluated once against the outer data, expression once per element with the element itself as data, in order; result = the expression values in order (same length); null collection is empty, other non-arrays and failing evaluations are errors"
    mapfilter_harness!(k_c13_map_other_0_p0, true, 3, 0, 0, 3);
    //@ob name=C13.map.err.0.p0 harness=k_c13_map_err_0_p0 props=C13,C04,C06,C01 tier=off strength=bounded bound="collection outcome err; 0 elements; expression success pattern 0b0; element values and expression values symbolic" fns=op::array::map stubs=4 timeout=300 cutdrop=2 group=medium
    //@ desc="map: collection evaluated once against the outer data, expression once per element with the element itself as data, in order; result = the expression values in order (same length); null collection is empty, other non-arrays and failing evaluations are errors"
    mapfilter_harness!(k_c13_map_err_0_p0, true, 4, 0, 0, 3);
    //@ob name=C13.map.new.0.p0 harness=k_c13_map_new_0_p0 props=C13,C04,C06,C01 tier=off strength=bounded bound="collection outcome new; 0 elements; expression success pattern 0b0; element values and expression values symbolic" fns=op::array::map stubs=4 timeout=300 cutdrop=2 group=medium
    //@ desc="map: collection evaluated once against the outer data, expression once per element with the element itself as data, in order; result = the expression values in order (same length); null collection is empty, other non-arrays and failing evaluations are errors"
    mapfilter_harness!(k_c13_map_new_0_p0, true, 0, 0, 0, 3);
    //@ob name=C13.map.raw.2.p1 harness=k_c13_map_raw_2_p1 props=C13,C04,C06,C01 tier=off strength=bounded bound="collection outcome raw; 2 elements; expression success pattern 0b1; element values and expression values symbolic" fns=op::array::map stubs=4 timeout=300 cutdrop=2 group=medium
    //@ desc="map: collection evaluated once against the outer data, expression once per element with the element itself as data, in order; result = the expression values in order (same length); null collection is empty, other non-arrays and failing evaluations are errors"
    mapfilter_harness!(k_c13_map_raw_2_p1, true, 1, 2, 1, 5);
    //@ob name=C13.map.new.3.p7 harness=k_c13_map_new_3_p7 props=C13,C04,C06,C01 tier=off strength=bounded bound="collection outcome new; 3 elements; expression success pattern 0b111; element values and expression values symbolic" fns=op::array::map stubs=4 timeout=300 cutdrop=2 group=medium
    //@ desc="map: collection evaluated once against the outer data, expression once per element with the element itself as data, in order; result = the expression values in order (same length); null collection is empty, other non-arrays and failing evaluations are errors"
    mapfilter_harness!(k_c13_map_new_3_p7, true, 0, 3, 7, 6);
    //@ob name=C13.filter.new.2.p3 harness=k_c13_filter_new_2_p3 props=C13,C04,C06,C01 tier=off strength=bounded bound="collection outcome new; 2 elements; expression success pattern 0b11; element values and expression values symbolic" fns=op::array::filter stubs=4 timeout=300 cutdrop=2 group=medium
    //@ desc="filter: collection evaluated once against the outer data, expression once per element with the element itself as data, in order; result = exactly the elements whose value is truthy, unchanged, in order; null collection is empty, other non-arrays and failing evaluations are errors"
    mapfilter_harness!(k_c13_filter_new_2_p3, false, 0, 2, 3, 5);
    //@ob name=C13.filter.raw.2.p3 harness=k_c13_filter_raw_2_p3 props=C13,C04,C06,C01 tier=off strength=bounded bound="collection outcome raw; 2 elements; expression success pattern 0b11; element values and expression values symbolic" fns=op::array::filter stubs=4 timeout=300 cutdrop=2 group=medium
    //@ desc="filter: collection evaluated once against the outer data, expression once per element with the element itself as data, in order; result = exactly the elements whose value is truthy, unchanged, in order; null collection is empty, other non-arrays and failing evaluations are errors"
    mapfilter_harness!(k_c13_filter_raw_2_p3, false, 1, 2, 3, 5);
    //@ob name=C13.filter.null.0.p0 harness=k_c13_filter_null_0_p0 props=C13,C04,C06,C01 tier=quick strength=bounded bound="collection outcome null; 0 elements; expression success pattern 0b0; element values and expression values symbolic" fns=op::array::filter stubs=4 timeout=300 cutdrop=2 group=medium
    //@ desc="filter: collection evaluated once against the outer data, expression once per element with the element itself as data, in order; result = exactly the elements whose value is truthy, unchanged, in order; null collection is empty, other non-arrays and failing evaluations are errors"
    mapfilter_harness!(k_c13_filter_null_0_p0, false, 2, 0, 0, 3);
    //@ob name=C13.filter.other.0.p0 harness=k_c13_filter_other_0_p0 props=C13,C04,C06,C01 tier=quick strength=bounded bound="collection outcome other; 0 elements; expression success pattern 0b0; element values and expression values symbolic" fns=op::array::filter stubs=4 timeout=300 cutdrop=2 group=medium
    //@ desc="filter: collection evaluated once against the outer data, expression once per element with the element itself as data, in order; result = exactly the elements whose value is truthy, unchanged, in order; null collection is empty, other non-arrays and failing evaluations are errors"
    mapfilter_harness!(k_c13_filter_other_0_p0, false, 3, 0, 0, 3);
    //@ob name=C13.filter.err.0.p0 harness=k_c13_filter_err_0_p0 props=C13,C04,C06,C01 tier=off strength=bounded bound="collection outcome err; 0 elements; expression success pattern 0b0; element values and expression values symbolic" fns=op::array::filter stubs=4 timeout=300 cutdrop=2 group=medium
    //@ desc="filter: collection evaluated once against the outer data, expression once per element with the element itself as data, in order; result = exactly the elements whose value is truthy, unchanged, in order; null collection is empty, other non-arrays and failing evaluations are errors"
    mapfilter_harness!(k_c13_filter_err_0_p0, false, 4, 0, 0, 3);
    //@ob name=C13.filter.new.0.p0 harness=k_c13_filter_new_0_p0 props=C13,C04,C06,C01 tier=off strength=bounded bound="collection outcome new; 0 elements; expression success pattern 0b0; element values and expression values symbolic" fns=op::array::filter stubs=4 timeout=300 cutdrop=2 group=medium
    //@ desc="filter: collection evaluated once against the outer data, expression once per element with the element itself as data, in order; result = exactly the elements whose value is truthy, unchanged, in order; null collection is empty, other non-arrays and failing evaluations are errors"
    mapfilter_harness!(k_c13_filter_new_0_p0, false, 0, 0, 0, 3);
    //@ob name=C13.filter.raw.2.p1 harness=k_c13_filter_raw_2_p1 props=C13,C04,C06,C01 tier=off strength=bounded bound="collection outcome raw; 2 elements; expression success pattern 0b1; element values and expression values symbolic" fns=op::array::filter stubs=4 timeout=300 cutdrop=2 group=medium
    //@ desc="filter: collection evaluated once against the outer data, expression once per element with the element itself as data, in order; result = exactly the elements whose value is truthy, unchanged, in order; null collection is empty, other non-arrays and failing evaluations are errors"
    mapfilter_harness!(k_c13_filter_raw_2_p1, false, 1, 2, 1, 5);
    //@ob name=C13.filter.new.3.p7 harness=k_c13_filter_new_3_p7 props=C13,C04,C06,C01 tier=off strength=bounded bound="collection outcome new; 3 elements; expression success pattern 0b111; element values and expression values symbolic" fns=op::array::filter stubs=4 timeout=300 cutdrop=2 group=medium
    //@ desc="filter: collection evaluated once against the outer data, expression once per element with the element itself as data, in order; result = exactly the elements whose value is truthy, unchanged, in order; null collection is empty, other non-arrays and failing evaluations are errors"
    mapfilter_harness!(k_c13_filter_new_3_p7, false, 0, 3, 7, 6);
//@END-GENERATED-MAPFILTER

    // =====================================================================================
    // C15: merge - one-level splice
    // =====================================================================================
    /// shape digits (base 4) per operand: 0 = scalar number, 1 = [] , 2 = [x, y], 3 = [[z]] (nested array stays an element)
    pub(crate) fn body_merge(n: usize, shape: u32) {
        let u: [u64; 8] = [kani::any(), kani::any(), kani::any(), kani::any(), kani::any(), kani::any(), kani::any(), kani::any()];
        let mut vals: Vec<MD<Value>> = Vec::with_capacity(4);
        // expected flat output as (kind, payload): kind 0 = number payload, 1 = a nested array (one element)
        let mut want_kind = [0u8; 8];
        let mut want_val = [0u64; 8];
        let mut wn = 0;
        let mut i = 0;
        let mut sh = shape;
        while i < n {
            let d = sh % 4;
            sh /= 4;
            let v = match d {
                0 => {
                    want_kind[wn] = 0;
                    want_val[wn] = u[2 * i];
                    wn += 1;
                    num(u[2 * i])
                }
                1 => Value::Array(Vec::new()),
                2 => {
                    want_kind[wn] = 0;
                    want_val[wn] = u[2 * i];
                    want_kind[wn + 1] = 0;
                    want_val[wn + 1] = u[2 * i + 1];
                    wn += 2;
                    Value::Array(vec![num(u[2 * i]), num(u[2 * i + 1])])
                }
                _ => {
                    want_kind[wn] = 1;
                    wn += 1;
                    Value::Array(vec![Value::Array(vec![num(u[2 * i])])])
                }
            };
            vals.push(MD::new(v));
            i += 1;
        }
        let vals = MD::new(vals);
        let mut items: Vec<&Value> = Vec::with_capacity(4);
        let mut i = 0;
        while i < n {
            items.push(&*vals[i]);
            i += 1;
        }
        let items = MD::new(items);
        let r = MD::new(merge(&items));
        kani::cover!(true, "returned");
        match &*r {
            Ok(Value::Array(out)) => {
                assert!(out.len() == wn, "merge: result length must be the sum of the array lengths plus the number of non-array operands");
                let mut j = 0;
                while j < wn {
                    if want_kind[j] == 0 {
                        assert!(matches!(&out[j], Value::Number(x) if x.as_u64() == Some(want_val[j])), "merge: elements in operand order, array operands spliced exactly one level");
                    } else {
                        assert!(matches!(&out[j], Value::Array(_)), "merge: a nested array stays a single element (one level only)");
                    }
                    j += 1;
                }
            }
            _ => assert!(false, "merge always returns an array"),
        }
    }
    macro_rules! merge_harness {
        ($name:ident, $n:expr, $shape:expr) => {
            #[cfg_attr(kani, kani::proof)]
            #[cfg_attr(kani, kani::unwind(8))]
            #[cfg_attr(kani, kani::stub(<serde_json::Value as std::clone::Clone>::clone, crate::verif_support::value_clone_shallow))]
            #[cfg_attr(kani, kani::stub(std::fmt::format, crate::verif_support::fmt_stub))]
            pub(crate) fn $name() {
                body_merge($n, $shape);
            }
        };
    }
//@GENERATED-MERGE
    //@ob name=C15.merge.none harness=k_c15_merge_none props=C15,C01 tier=quick strength=bounded bound="operand shapes (); element values symbolic" fns=op::array::merge stubs=2 timeout=300 cutdrop=3 group=medium
    //@ desc="merge: concatenation in operand order, array operands spliced exactly one level (a nested array stays one element), every other value one element; length law"
    merge_harness!(k_c15_merge_none, 0, 0);
    //@ob name=C15.merge.scalar harness=k_c15_merge_scalar props=C15,C01 tier=quick strength=bounded bound="operand shapes (scalar); element values symbolic" fns=op::array::merge stubs=2 timeout=300 cutdrop=3 group=medium
    //@ desc="merge: concatenation in operand order, array operands spliced exactly one level (a nested array stays one element), every other value one element; length law"
    merge_harness!(k_c15_merge_scalar, 1, 0);
    //@ob name=C15.merge.pair harness=k_c15_merge_pair props=C15,C01 tier=quick strength=bounded bound="operand shapes (pair); element values symbolic" fns=op::array::merge stubs=2 timeout=300 cutdrop=3 group=medium
    //@ desc="merge: concatenation in operand order, array operands spliced exactly one level (a nested array stays one element), every other value one element; length law"
    merge_harness!(k_c15_merge_pair, 1, 2);
    //@ob name=C15.merge.pair_scalar harness=k_c15_merge_pair_scalar props=C15,C01 tier=off strength=bounded bound="operand shapes (pair, scalar); element values symbolic" fns=op::array::merge stubs=2 timeout=300 cutdrop=3 group=medium
    //@ desc="merge: concatenation in operand order, array operands spliced exactly one level (a nested array stays one element), every other value one element; length law"
    merge_harness!(k_c15_merge_pair_scalar, 2, 2);
    //@ob name=C15.merge.nested harness=k_c15_merge_nested props=C15,C01 tier=quick strength=bounded bound="operand shapes (nested); element values symbolic" fns=op::array::merge stubs=2 timeout=300 cutdrop=3 group=medium
    //@ desc="merge: concatenation in operand order, array operands spliced exactly one level (a nested array stays one element), every other value one element; length law"
    merge_harness!(k_c15_merge_nested, 1, 3);
    //@ob name=C15.merge.empty_pair harness=k_c15_merge_empty_pair props=C15,C01 tier=off strength=bounded bound="operand shapes (empty, pair); element values symbolic" fns=op::array::merge stubs=2 timeout=300 cutdrop=3 group=medium
    //@ desc="merge: concatenation in operand order, array operands spliced exactly one level (a nested array stays one element), every other value one element; length law"
    merge_harness!(k_c15_merge_empty_pair, 2, 9);
    //@ob name=C15.merge.scalar_pair_nested harness=k_c15_merge_scalar_pair_nested props=C15,C01 tier=off strength=bounded bound="operand shapes (scalar, pair, nested); element values symbolic" fns=op::array::merge stubs=2 timeout=300 cutdrop=3 group=medium
    //@ desc="merge: concatenation in operand order, array operands spliced exactly one level (a nested array stays one element), every other value one element; length law"
    merge_harness!(k_c15_merge_scalar_pair_nested, 3, 56);
    //@ob name=C15.merge.pair_pair harness=k_c15_merge_pair_pair props=C15,C01 tier=off strength=bounded bound="operand shapes (pair, pair); element values symbolic" fns=op::array::merge stubs=2 timeout=300 cutdrop=3 group=medium
    //@ desc="merge: concatenation in operand order, array operands spliced exactly one level (a nested array stays one element), every other value one element; length law"
    merge_harness!(k_c15_merge_pair_pair, 2, 10);
//@END-GENERATED-MERGE

    // =====================================================================================
    // C15: in_ - null => false; string haystack => both strings (substring); array => membership under
    // NUMERIC equality of numbers; anything else => error
    // =====================================================================================
    /// mathematical equality of two JSON numbers (integers exactly, doubles exactly)
    pub(crate) fn spec_num_eq(a: &Number, b: &Number) -> bool {
        let ai: Option<i128> = a.as_i64().map(|x| x as i128).or(a.as_u64().map(|x| x as i128));
        let bi: Option<i128> = b.as_i64().map(|x| x as i128).or(b.as_u64().map(|x| x as i128));
        match (ai, bi) {
            (Some(x), Some(y)) => x == y,
            (None, None) => a.as_f64().unwrap() == b.as_f64().unwrap(),
            (Some(x), None) => float_eq_int(b.as_f64().unwrap(), x),
            (None, Some(y)) => float_eq_int(a.as_f64().unwrap(), y),
        }
    }
    fn float_eq_int(f: f64, i: i128) -> bool {
        // exact: f is integral, within the i128-safe range of 64-bit integers, and equals i
        if f != f.trunc() || f < -18446744073709551616.0 || f > 18446744073709551616.0 {
            return false;
        }
        (f as i128) == i
    }
    //@ob name=C15.in.number_in_array props=C15,C01 strength=complete fns=op::array::in_ replay=generic stubs=1 timeout=300
    //@ desc="in(n, [m]) for EVERY pair of JSON numbers (any i64 / u64 / finite f64 spelling): true iff n and m are numerically equal (1, 1.0 and 1e0 are the same element; 0 and -0 too)"
    #[cfg_attr(kani, kani::proof)]
    #[cfg_attr(kani, kani::unwind(4))]
    #[cfg_attr(kani, kani::stub(std::fmt::format, crate::verif_support::fmt_stub))]
    pub(crate) fn k_c15_in_number_in_array() {
        let a = any_number();
        let b = any_number();
        let expect = spec_num_eq(&a, &b);
        let needle = MD::new(Value::Number(a));
        let hay = MD::new(Value::Array(vec![Value::Number(b)]));
        #[cfg(verif_replay)]
        eprintln!("REPLAY-INPUT: in({}, {})", &*needle, &*hay);
        let mut items: Vec<&Value> = Vec::with_capacity(2);
        items.push(&*needle);
        items.push(&*hay);
        let items = MD::new(items);
        let r = MD::new(in_(&items));
        kani::cover!(matches!(&*r, Ok(Value::Bool(true))));
        kani::cover!(matches!(&*r, Ok(Value::Bool(false))));
        assert!(matches!(&*r, Ok(Value::Bool(x)) if *x == expect), "in: numerically equal numbers are the same element whatever their JSON spelling");
    }
    /// hk: haystack kind 0 null, 1 bool, 2 number, 3 object, 4 string(1 symbolic ASCII byte), 5 array [null]
    /// nk: needle kind 0 null, 1 bool, 2 number, 3 string (1 symbolic ASCII byte), 4 array []
    pub(crate) fn body_in_dispatch(nk: u8, hk: u8) {
        let needle = MD::new(match nk {
            0 => Value::Null,
            1 => Value::Bool(kani::any()),
            2 => Value::Number(any_number()),
            3 => Value::String(any_ascii_string::<1>()),
            _ => Value::Array(Vec::new()),
        });
        let hay = MD::new(match hk {
            0 => Value::Null,
            1 => Value::Bool(kani::any()),
            2 => Value::Number(any_number()),
            3 => Value::Object(Map::new()),
            4 => Value::String(any_ascii_string::<1>()),
            _ => Value::Array(vec![Value::Null]),
        });
        #[cfg(verif_replay)]
        eprintln!("REPLAY-INPUT: in({}, {})", &*needle, &*hay);
        let mut items: Vec<&Value> = Vec::with_capacity(2);
        items.push(&*needle);
        items.push(&*hay);
        let items = MD::new(items);
        let r = MD::new(in_(&items));
        kani::cover!(true, "returned");
        match hk {
            0 => assert!(matches!(&*r, Ok(Value::Bool(false))), "in: a null haystack contains nothing"),
            1 | 2 | 3 => assert!(r.is_err(), "in: the second operand must be an array, a string or null"),
            4 => {
                if nk == 3 {
                    let same = match (&*needle, &*hay) {
                        (Value::String(a), Value::String(b)) => a.as_bytes()[0] == b.as_bytes()[0],
                        _ => false,
                    };
                    assert!(matches!(&*r, Ok(Value::Bool(x)) if *x == same), "in: substring containment on strings");
                } else {
                    assert!(r.is_err(), "in: with a string haystack the needle must be a string");
                }
            }
            _ => assert!(matches!(&*r, Ok(Value::Bool(x)) if *x == (nk == 0)), "in: membership in [null]"),
        }
    }
    macro_rules! in_harness {
        ($name:ident, $nk:expr, $hk:expr) => {
            #[cfg_attr(kani, kani::proof)]
            #[cfg_attr(kani, kani::unwind(6))]
            #[cfg_attr(kani, kani::stub(<serde_json::Value as std::clone::Clone>::clone, crate::verif_support::value_clone_shallow))]
            #[cfg_attr(kani, kani::stub(std::fmt::format, crate::verif_support::fmt_stub))]
            pub(crate) fn $name() {
                body_in_dispatch($nk, $hk);
            }
        };
    }
//@GENERATED-IN
    //@ob name=C15.in.num_in_null harness=k_c15_in_num_in_null props=C15,C01 tier=quick strength=complete fns=op::array::in_ stubs=2 replay=generic timeout=200
    //@ desc="in(needle: num, haystack: null): null haystack => false; string haystack => both strings, substring; array => membership; any other haystack => error"
    in_harness!(k_c15_in_num_in_null, 2, 0);
    //@ob name=C15.in.str_in_null harness=k_c15_in_str_in_null props=C15,C01 tier=thorough strength=bounded bound="strings of one symbolic ASCII byte" fns=op::array::in_ stubs=2 replay=generic timeout=200
    //@ desc="in(needle: str, haystack: null): null haystack => false; string haystack => both strings, substring; array => membership; any other haystack => error"
    in_harness!(k_c15_in_str_in_null, 3, 0);
    //@ob name=C15.in.num_in_bool harness=k_c15_in_num_in_bool props=C15,C01 tier=thorough strength=complete fns=op::array::in_ stubs=2 replay=generic timeout=200
    //@ desc="in(needle: num, haystack: bool): null haystack => false; string haystack => both strings, substring; array => membership; any other haystack => error"
    in_harness!(k_c15_in_num_in_bool, 2, 1);
    //@ob name=C15.in.str_in_num harness=k_c15_in_str_in_num props=C15,C01 tier=quick strength=bounded bound="strings of one symbolic ASCII byte" fns=op::array::in_ stubs=2 replay=generic timeout=200
    //@ desc="in(needle: str, haystack: num): null haystack => false; string haystack => both strings, substring; array => membership; any other haystack => error"
    in_harness!(k_c15_in_str_in_num, 3, 2);
    //@ob name=C15.in.null_in_obj harness=k_c15_in_null_in_obj props=C15,C01 tier=quick strength=complete fns=op::array::in_ stubs=2 replay=generic timeout=200
    //@ desc="in(needle: null, haystack: obj): null haystack => false; string haystack => both strings, substring; array => membership; any other haystack => error"
    in_harness!(k_c15_in_null_in_obj, 0, 3);
    //@ob name=C15.in.str_in_str harness=k_c15_in_str_in_str props=C15,C01 tier=quick strength=bounded bound="strings of one symbolic ASCII byte" fns=op::array::in_ stubs=2 replay=generic timeout=200
    //@ desc="in(needle: str, haystack: str): null haystack => false; string haystack => both strings, substring; array => membership; any other haystack => error"
    in_harness!(k_c15_in_str_in_str, 3, 4);
    //@ob name=C15.in.num_in_str harness=k_c15_in_num_in_str props=C15,C01 tier=quick strength=bounded bound="strings of one symbolic ASCII byte" fns=op::array::in_ stubs=2 replay=generic timeout=200
    //@ desc="in(needle: num, haystack: str): null haystack => false; string haystack => both strings, substring; array => membership; any other haystack => error"
    in_harness!(k_c15_in_num_in_str, 2, 4);
    //@ob name=C15.in.arr_in_str harness=k_c15_in_arr_in_str props=C15,C01 tier=thorough strength=bounded bound="strings of one symbolic ASCII byte" fns=op::array::in_ stubs=2 replay=generic timeout=200
    //@ desc="in(needle: arr, haystack: str): null haystack => false; string haystack => both strings, substring; array => membership; any other haystack => error"
    in_harness!(k_c15_in_arr_in_str, 4, 4);
    //@ob name=C15.in.null_in_arr harness=k_c15_in_null_in_arr props=C15,C01 tier=quick strength=complete fns=op::array::in_ stubs=2 replay=generic timeout=200
    //@ desc="in(needle: null, haystack: arr): null haystack => false; string haystack => both strings, substring; array => membership; any other haystack => error"
    in_harness!(k_c15_in_null_in_arr, 0, 5);
    //@ob name=C15.in.num_in_arr harness=k_c15_in_num_in_arr props=C15,C01 tier=quick strength=complete fns=op::array::in_ stubs=2 replay=generic timeout=200
    //@ desc="in(needle: num, haystack: arr): null haystack => false; string haystack => both strings, substring; array => membership; any other haystack => error"
    in_harness!(k_c15_in_num_in_arr, 2, 5);
    //@ob name=C15.in.bool_in_arr harness=k_c15_in_bool_in_arr props=C15,C01 tier=thorough strength=complete fns=op::array::in_ stubs=2 replay=generic timeout=200
    //@ desc="in(needle: bool, haystack: arr): null haystack => false; string haystack => both strings, substring; array => membership; any other haystack => error"
    in_harness!(k_c15_in_bool_in_arr, 1, 5);
//@END-GENERATED-IN
}

#[cfg(any(kani, verif_replay))]
#[allow(dead_code, unused_imports, unused_variables, unused_macros, unused_mut, static_mut_refs)]
pub(crate) mod verif_array {
    use super::*;
    #[cfg(verif_replay)]
    use crate::verif_support::shim as kani;
    use crate::verif_support::*;
    use serde_json::Number;

    fn num(u: u64) -> Value {
        Value::Number(Number::from(u))
    }

    // =====================================================================================
    // C14 / C04 / C06: all, some with the evaluator by contract.
    //   node 0 = collection operand, node 1 = predicate (evaluated once per element: "multi" node),
    //   nodes 2.. = the element expressions of a literal-array collection (rule text).
    // Element values e_j and predicate answers p_j are independent symbolic u64 (truthy iff != 0).
    // =====================================================================================
    pub(crate) const M_LIT_ARRAY: u8 = 0; // collection written as a literal array of expressions
    pub(crate) const M_COMPUTED_NEW: u8 = 1; // collection is an operation evaluating to a fresh array
    pub(crate) const M_COMPUTED_RAW: u8 = 2; // ... to a borrowed array
    pub(crate) const M_LIT_NULL: u8 = 3;
    pub(crate) const M_COMPUTED_NULL: u8 = 4;
    pub(crate) const M_LIT_NUMBER: u8 = 5; // not a collection: error
    pub(crate) const M_COMPUTED_ERR: u8 = 6;
    pub(crate) const M_COMPUTED_BOOL: u8 = 7; // computed non-collection: error

    /// `epat` / `ppat`: bit j set = element j / predicate call j succeeds (Ok); clear = Err.
    pub(crate) fn body_quant(is_all: bool, mode: u8, n: usize, epat: u32, ppat: u32) {
        let e: [u64; 3] = [kani::any(), kani::any(), kani::any()];
        let p: [u64; 3] = [kani::any(), kani::any(), kani::any()];
        let data = MD::new(Value::Bool(true));
        let evals = [MD::new(num(e[0])), MD::new(num(e[1])), MD::new(num(e[2]))];
        let pvals = [MD::new(num(p[0])), MD::new(num(p[1])), MD::new(num(p[2]))];
        let mut elems: Vec<Value> = Vec::with_capacity(3);
        let mut i = 0;
        while i < n {
            // literal mode: the elements are rule text nodes (content irrelevant, evaluated by contract);
            // computed mode: the elements are DATA: numbers e_j
            elems.push(if mode == M_LIT_ARRAY { Value::Null } else { num(e[i]) });
            i += 1;
        }
        let computed_arr = MD::new(Value::Array(elems));
        let null_v = MD::new(Value::Null);
        let bool_v = MD::new(Value::Bool(true));
        // node 0: the collection operand as written in the rule
        let coll_node: MD<Value> = match mode {
            M_LIT_ARRAY => {
                let mut v: Vec<Value> = Vec::with_capacity(3);
                let mut i = 0;
                while i < n {
                    v.push(Value::Null);
                    i += 1;
                }
                MD::new(Value::Array(v))
            }
            M_LIT_NULL => MD::new(Value::Null),
            M_LIT_NUMBER => MD::new(num(7)),
            _ => MD::new(Value::Object(Map::new())),
        };
        let pred_node = MD::new(Value::Null);
        let (cclass, cout): (u8, *const Value) = match mode {
            M_COMPUTED_NEW => (1, &*computed_arr as *const Value),
            M_COMPUTED_RAW => (2, &*computed_arr as *const Value),
            M_COMPUTED_NULL => (1, &*null_v as *const Value),
            M_COMPUTED_BOOL => (1, &*bool_v as *const Value),
            M_COMPUTED_ERR => (0, &*null_v as *const Value),
            _ => (2, &*null_v as *const Value),
        };
        ev::register(&coll_node, cclass, cout);
        let pn = ev::register(&pred_node, 1, &*null_v as *const Value);
        ev::set_multi(pn);
        let mut j = 0;
        while j < 3 {
            ev::set_multi_outcome(j, if (ppat >> j) & 1 == 1 { 1 } else { 0 }, &*pvals[j] as *const Value);
            j += 1;
        }
        if mode == M_LIT_ARRAY {
            if let Value::Array(v) = &*coll_node {
                let mut j = 0;
                while j < n {
                    ev::register(&v[j], if (epat >> j) & 1 == 1 { if j % 2 == 0 { 1 } else { 2 } } else { 0 }, &*evals[j] as *const Value);
                    j += 1;
                }
            }
        }
        let mut args: Vec<&Value> = Vec::with_capacity(2);
        args.push(&*coll_node);
        args.push(&*pred_node);
        let args = MD::new(args);
        let r = MD::new(if is_all { all(&data, &args) } else { some(&data, &args) });
        kani::cover!(true, "returned");

        // ---- spec
        let mut want: Result<bool, ()> = Ok(false);
        let mut log_node = [0usize; 8];
        let mut log_fp = [0u64; 8];
        let mut k = 0;
        let outer_fp = ev::fingerprint(&data);
        let computed = mode != M_LIT_ARRAY && mode != M_LIT_NULL && mode != M_LIT_NUMBER;
        if computed {
            log_node[k] = 0;
            log_fp[k] = outer_fp;
            k += 1;
        }
        let is_collection = mode == M_LIT_ARRAY || mode == M_COMPUTED_NEW || mode == M_COMPUTED_RAW;
        if mode == M_COMPUTED_ERR || mode == M_LIT_NUMBER || mode == M_COMPUTED_BOOL {
            want = Err(());
        } else if !is_collection || n == 0 {
            want = Ok(false); // null and empty collections
        } else {
            let mut acc = is_all;
            let mut j = 0;
            want = Ok(is_all);
            while j < n {
                if mode == M_LIT_ARRAY {
                    // the element expression is evaluated against the OUTER data first
                    log_node[k] = 2 + j;
                    log_fp[k] = outer_fp;
                    k += 1;
                    if (epat >> j) & 1 == 0 {
                        want = Err(());
                        break;
                    }
                }
                // then the predicate sees the element's value as its data
                log_node[k] = pn;
                log_fp[k] = e[j];
                k += 1;
                if (ppat >> j) & 1 == 0 {
                    want = Err(());
                    break;
                }
                let t = p[j] != 0;
                if is_all && !t {
                    want = Ok(false);
                    break;
                }
                if !is_all && t {
                    want = Ok(true);
                    break;
                }
                j += 1;
            }
        }
        match (&*r, want) {
            (Ok(Value::Bool(b)), Ok(w)) => assert!(*b == w, "all/some: wrong truth value (non-empty-and-every / at-least-one over the predicate's truthiness)"),
            (Err(_), Err(())) => {}
            _ => assert!(false, "all/some: error vs value differs from the spec (null/empty => false, non-collection => error, first error propagates)"),
        }
        assert!(ev::log_len() == k, "all/some: evaluation log length differs (short-circuit at the first deciding element; each expression at most once)");
        let mut q = 0;
        while q < k {
            let (node, _) = ev::log_at(q);
            assert!(node == log_node[q], "all/some: evaluation order differs from the spec");
            assert!(unsafe { ev::LOG_DATA_FP[q] } == log_fp[q], "all/some: wrong data: literal elements are evaluated against the outer data, the predicate against the element's value");
            q += 1;
        }
    }
    macro_rules! quant_harness {
        ($name:ident, $is_all:expr, $mode:expr, $n:expr, $epat:expr, $ppat:expr) => {
            #[cfg_attr(kani, kani::proof)]
            #[cfg_attr(kani, kani::unwind(10))]
            #[cfg_attr(kani, kani::stub(<serde_json::Value as std::clone::Clone>::clone, crate::verif_support::value_clone_shallow))]
            #[cfg_attr(kani, kani::stub(crate::value::Parsed::from_value, crate::value::Parsed::verif_from_value_stub))]
            #[cfg_attr(kani, kani::stub(crate::value::Parsed::evaluate, crate::value::Parsed::verif_evaluate_stub))]
            #[cfg_attr(kani, kani::stub(std::fmt::format, crate::verif_support::fmt_stub))]
            pub(crate) fn $name() {
                body_quant($is_all, $mode, $n, $epat, $ppat);
            }
        };
    }
//@GENERATED-QUANT
    //@ob name=C14.all.lit.2.e3.p3 harness=k_c14_all_lit_2_e3_p3 props=C14,C04,C06,C01 tier=quick strength=bounded bound="collection written as a literal array of expressions; 2 elements; element/predicate success pattern e=0b11 p=0b11; values and predicate answers symbolic" fns=op::array::all stubs=4 timeout=300 cutdrop=2 group=medium
    //@ desc="all: truth value, error cases, short-circuit evaluation log and scoping (literal-array elements evaluated against the outer data, computed elements passed as data UNPARSED, predicate sees the element) equal the spec"
    quant_harness!(k_c14_all_lit_2_e3_p3, true, 0, 2, 3, 3);
    //@ob name=C14.all.cnew.2.e3.p3 harness=k_c14_all_cnew_2_e3_p3 props=C14,C04,C06,C01 tier=quick strength=bounded bound="collection computed (fresh array); 2 elements; element/predicate success pattern e=0b11 p=0b11; values and predicate answers symbolic" fns=op::array::all stubs=4 timeout=300 cutdrop=2 group=medium
    //@ desc="all: truth value, error cases, short-circuit evaluation log and scoping (literal-array elements evaluated against the outer data, computed elements passed as data UNPARSED, predicate sees the element) equal the spec"
    quant_harness!(k_c14_all_cnew_2_e3_p3, true, 1, 2, 3, 3);
    //@ob name=C14.all.craw.1.e1.p1 harness=k_c14_all_craw_1_e1_p1 props=C14,C04,C06,C01 tier=quick strength=bounded bound="collection computed (borrowed array); 1 elements; element/predicate success pattern e=0b1 p=0b1; values and predicate answers symbolic" fns=op::array::all stubs=4 timeout=300 cutdrop=2 group=medium
    //@ desc="all: truth value, error cases, short-circuit evaluation log and scoping (literal-array elements evaluated against the outer data, computed elements passed as data UNPARSED, predicate sees the element) equal the spec"
    quant_harness!(k_c14_all_craw_1_e1_p1, true, 2, 1, 1, 1);
    //@ob name=C14.all.lit.0.e0.p0 harness=k_c14_all_lit_0_e0_p0 props=C14,C04,C06,C01 tier=quick strength=bounded bound="empty literal array; 0 elements; element/predicate success pattern e=0b0 p=0b0; values and predicate answers symbolic" fns=op::array::all stubs=4 timeout=300 cutdrop=2 group=medium
    //@ desc="all: truth value, error cases, short-circuit evaluation log and scoping (literal-array elements evaluated against the outer data, computed elements passed as data UNPARSED, predicate sees the element) equal the spec"
    quant_harness!(k_c14_all_lit_0_e0_p0, true, 0, 0, 0, 0);
    //@ob name=C14.all.litnull.0.e0.p0 harness=k_c14_all_litnull_0_e0_p0 props=C14,C04,C06,C01 tier=quick strength=bounded bound="literal null; 0 elements; element/predicate success pattern e=0b0 p=0b0; values and predicate answers symbolic" fns=op::array::all stubs=4 timeout=300 cutdrop=2 group=medium
    //@ desc="all: truth value, error cases, short-circuit evaluation log and scoping (literal-array elements evaluated against the outer data, computed elements passed as data UNPARSED, predicate sees the element) equal the spec"
    quant_harness!(k_c14_all_litnull_0_e0_p0, true, 3, 0, 0, 0);
    //@ob name=C14.all.cnull.0.e0.p0 harness=k_c14_all_cnull_0_e0_p0 props=C14,C04,C06,C01 tier=quick strength=bounded bound="computed null; 0 elements; element/predicate success pattern e=0b0 p=0b0; values and predicate answers symbolic" fns=op::array::all stubs=4 timeout=300 cutdrop=2 group=medium
    //@ desc="all: truth value, error cases, short-circuit evaluation log and scoping (literal-array elements evaluated against the outer data, computed elements passed as data UNPARSED, predicate sees the element) equal the spec"
    quant_harness!(k_c14_all_cnull_0_e0_p0, true, 4, 0, 0, 0);
    //@ob name=C14.all.litnum.0.e0.p0 harness=k_c14_all_litnum_0_e0_p0 props=C14,C04,C06,C01 tier=quick strength=bounded bound="literal number (not a collection); 0 elements; element/predicate success pattern e=0b0 p=0b0; values and predicate answers symbolic" fns=op::array::all stubs=4 timeout=300 cutdrop=2 group=medium
    //@ desc="all: truth value, error cases, short-circuit evaluation log and scoping (literal-array elements evaluated against the outer data, computed elements passed as data UNPARSED, predicate sees the element) equal the spec"
    quant_harness!(k_c14_all_litnum_0_e0_p0, true, 5, 0, 0, 0);
    //@ob name=C14.all.cerr.0.e0.p0 harness=k_c14_all_cerr_0_e0_p0 props=C14,C04,C06,C01 tier=thorough strength=bounded bound="collection evaluation fails; 0 elements; element/predicate success pattern e=0b0 p=0b0; values and predicate answers symbolic" fns=op::array::all stubs=4 timeout=300 cutdrop=2 group=medium
    //@ desc="all: truth value, error cases, short-circuit evaluation log and scoping (literal-array elements evaluated against the outer data, computed elements passed as data UNPARSED, predicate sees the element) equal the spec"
    quant_harness!(k_c14_all_cerr_0_e0_p0, true, 6, 0, 0, 0);
    //@ob name=C14.all.cbool.0.e0.p0 harness=k_c14_all_cbool_0_e0_p0 props=C14,C04,C06,C01 tier=thorough strength=bounded bound="computed boolean (not a collection); 0 elements; element/predicate success pattern e=0b0 p=0b0; values and predicate answers symbolic" fns=op::array::all stubs=4 timeout=300 cutdrop=2 group=medium
    //@ desc="all: truth value, error cases, short-circuit evaluation log and scoping (literal-array elements evaluated against the outer data, computed elements passed as data UNPARSED, predicate sees the element) equal the spec"
    quant_harness!(k_c14_all_cbool_0_e0_p0, true, 7, 0, 0, 0);
    //@ob name=C14.all.lit.2.e1.p3 harness=k_c14_all_lit_2_e1_p3 props=C14,C04,C06,C01 tier=thorough strength=bounded bound="literal array, second element expression fails; 2 elements; element/predicate success pattern e=0b1 p=0b11; values and predicate answers symbolic" fns=op::array::all stubs=4 timeout=300 cutdrop=2 group=medium
    //@ desc="all: truth value, error cases, short-circuit evaluation log and scoping (literal-array elements evaluated against the outer data, computed elements passed as data UNPARSED, predicate sees the element) equal the spec"
    quant_harness!(k_c14_all_lit_2_e1_p3, true, 0, 2, 1, 3);
    //@ob name=C14.all.cnew.2.e3.p1 harness=k_c14_all_cnew_2_e3_p1 props=C14,C04,C06,C01 tier=thorough strength=bounded bound="computed array, second predicate call fails; 2 elements; element/predicate success pattern e=0b11 p=0b1; values and predicate answers symbolic" fns=op::array::all stubs=4 timeout=300 cutdrop=2 group=medium
    //@ desc="all: truth value, error cases, short-circuit evaluation log and scoping (literal-array elements evaluated against the outer data, computed elements passed as data UNPARSED, predicate sees the element) equal the spec"
    quant_harness!(k_c14_all_cnew_2_e3_p1, true, 1, 2, 3, 1);
    //@ob name=C14.all.lit.3.e7.p7 harness=k_c14_all_lit_3_e7_p7 props=C14,C04,C06,C01 tier=thorough strength=bounded bound="literal array of three; 3 elements; element/predicate success pattern e=0b111 p=0b111; values and predicate answers symbolic" fns=op::array::all stubs=4 timeout=300 cutdrop=2 group=medium
    //@ desc="all: truth value, error cases, short-circuit evaluation log and scoping (literal-array elements evaluated against the outer data, computed elements passed as data UNPARSED, predicate sees the element) equal the spec"
    quant_harness!(k_c14_all_lit_3_e7_p7, true, 0, 3, 7, 7);
    //@ob name=C14.all.cnew.3.e7.p7 harness=k_c14_all_cnew_3_e7_p7 props=C14,C04,C06,C01 tier=thorough strength=bounded bound="computed array of three; 3 elements; element/predicate success pattern e=0b111 p=0b111; values and predicate answers symbolic" fns=op::array::all stubs=4 timeout=300 cutdrop=2 group=medium
    //@ desc="all: truth value, error cases, short-circuit evaluation log and scoping (literal-array elements evaluated against the outer data, computed elements passed as data UNPARSED, predicate sees the element) equal the spec"
    quant_harness!(k_c14_all_cnew_3_e7_p7, true, 1, 3, 7, 7);
    //@ob name=C14.some.lit.2.e3.p3 harness=k_c14_some_lit_2_e3_p3 props=C14,C04,C06,C01 tier=quick strength=bounded bound="collection written as a literal array of expressions; 2 elements; element/predicate success pattern e=0b11 p=0b11; values and predicate answers symbolic" fns=op::array::some stubs=4 timeout=300 cutdrop=2 group=medium
    //@ desc="some: truth value, error cases, short-circuit evaluation log and scoping (literal-array elements evaluated against the outer data, computed elements passed as data UNPARSED, predicate sees the element) equal the spec"
    quant_harness!(k_c14_some_lit_2_e3_p3, false, 0, 2, 3, 3);
    //@ob name=C14.some.cnew.2.e3.p3 harness=k_c14_some_cnew_2_e3_p3 props=C14,C04,C06,C01 tier=quick strength=bounded bound="collection computed (fresh array); 2 elements; element/predicate success pattern e=0b11 p=0b11; values and predicate answers symbolic" fns=op::array::some stubs=4 timeout=300 cutdrop=2 group=medium
    //@ desc="some: truth value, error cases, short-circuit evaluation log and scoping (literal-array elements evaluated against the outer data, computed elements passed as data UNPARSED, predicate sees the element) equal the spec"
    quant_harness!(k_c14_some_cnew_2_e3_p3, false, 1, 2, 3, 3);
    //@ob name=C14.some.craw.1.e1.p1 harness=k_c14_some_craw_1_e1_p1 props=C14,C04,C06,C01 tier=quick strength=bounded bound="collection computed (borrowed array); 1 elements; element/predicate success pattern e=0b1 p=0b1; values and predicate answers symbolic" fns=op::array::some stubs=4 timeout=300 cutdrop=2 group=medium
    //@ desc="some: truth value, error cases, short-circuit evaluation log and scoping (literal-array elements evaluated against the outer data, computed elements passed as data UNPARSED, predicate sees the element) equal the spec"
    quant_harness!(k_c14_some_craw_1_e1_p1, false, 2, 1, 1, 1);
    //@ob name=C14.some.lit.0.e0.p0 harness=k_c14_some_lit_0_e0_p0 props=C14,C04,C06,C01 tier=quick strength=bounded bound="empty literal array; 0 elements; element/predicate success pattern e=0b0 p=0b0; values and predicate answers symbolic" fns=op::array::some stubs=4 timeout=300 cutdrop=2 group=medium
    //@ desc="some: truth value, error cases, short-circuit evaluation log and scoping (literal-array elements evaluated against the outer data, computed elements passed as data UNPARSED, predicate sees the element) equal the spec"
    quant_harness!(k_c14_some_lit_0_e0_p0, false, 0, 0, 0, 0);
    //@ob name=C14.some.litnull.0.e0.p0 harness=k_c14_some_litnull_0_e0_p0 props=C14,C04,C06,C01 tier=quick strength=bounded bound="literal null; 0 elements; element/predicate success pattern e=0b0 p=0b0; values and predicate answers symbolic" fns=op::array::some stubs=4 timeout=300 cutdrop=2 group=medium
    //@ desc="some: truth value, error cases, short-circuit evaluation log and scoping (literal-array elements evaluated against the outer data, computed elements passed as data UNPARSED, predicate sees the element) equal the spec"
    quant_harness!(k_c14_some_litnull_0_e0_p0, false, 3, 0, 0, 0);
    //@ob name=C14.some.cnull.0.e0.p0 harness=k_c14_some_cnull_0_e0_p0 props=C14,C04,C06,C01 tier=quick strength=bounded bound="computed null; 0 elements; element/predicate success pattern e=0b0 p=0b0; values and predicate answers symbolic" fns=op::array::some stubs=4 timeout=300 cutdrop=2 group=medium
    //@ desc="some: truth value, error cases, short-circuit evaluation log and scoping (literal-array elements evaluated against the outer data, computed elements passed as data UNPARSED, predicate sees the element) equal the spec"
    quant_harness!(k_c14_some_cnull_0_e0_p0, false, 4, 0, 0, 0);
    //@ob name=C14.some.litnum.0.e0.p0 harness=k_c14_some_litnum_0_e0_p0 props=C14,C04,C06,C01 tier=quick strength=bounded bound="literal number (not a collection); 0 elements; element/predicate success pattern e=0b0 p=0b0; values and predicate answers symbolic" fns=op::array::some stubs=4 timeout=300 cutdrop=2 group=medium
    //@ desc="some: truth value, error cases, short-circuit evaluation log and scoping (literal-array elements evaluated against the outer data, computed elements passed as data UNPARSED, predicate sees the element) equal the spec"
    quant_harness!(k_c14_some_litnum_0_e0_p0, false, 5, 0, 0, 0);
    //@ob name=C14.some.cerr.0.e0.p0 harness=k_c14_some_cerr_0_e0_p0 props=C14,C04,C06,C01 tier=thorough strength=bounded bound="collection evaluation fails; 0 elements; element/predicate success pattern e=0b0 p=0b0; values and predicate answers symbolic" fns=op::array::some stubs=4 timeout=300 cutdrop=2 group=medium
    //@ desc="some: truth value, error cases, short-circuit evaluation log and scoping (literal-array elements evaluated against the outer data, computed elements passed as data UNPARSED, predicate sees the element) equal the spec"
    quant_harness!(k_c14_some_cerr_0_e0_p0, false, 6, 0, 0, 0);
    //@ob name=C14.some.cbool.0.e0.p0 harness=k_c14_some_cbool_0_e0_p0 props=C14,C04,C06,C01 tier=thorough strength=bounded bound="computed boolean (not a collection); 0 elements; element/predicate success pattern e=0b0 p=0b0; values and predicate answers symbolic" fns=op::array::some stubs=4 timeout=300 cutdrop=2 group=medium
    //@ desc="some: truth value, error cases, short-circuit evaluation log and scoping (literal-array elements evaluated against the outer data, computed elements passed as data UNPARSED, predicate sees the element) equal the spec"
    quant_harness!(k_c14_some_cbool_0_e0_p0, false, 7, 0, 0, 0);
    //@ob name=C14.some.lit.2.e1.p3 harness=k_c14_some_lit_2_e1_p3 props=C14,C04,C06,C01 tier=thorough strength=bounded bound="literal array, second element expression fails; 2 elements; element/predicate success pattern e=0b1 p=0b11; values and predicate answers symbolic" fns=op::array::some stubs=4 timeout=300 cutdrop=2 group=medium
    //@ desc="some: truth value, error cases, short-circuit evaluation log and scoping (literal-array elements evaluated against the outer data, computed elements passed as data UNPARSED, predicate sees the element) equal the spec"
    quant_harness!(k_c14_some_lit_2_e1_p3, false, 0, 2, 1, 3);
    //@ob name=C14.some.cnew.2.e3.p1 harness=k_c14_some_cnew_2_e3_p1 props=C14,C04,C06,C01 tier=thorough strength=bounded bound="computed array, second predicate call fails; 2 elements; element/predicate success pattern e=0b11 p=0b1; values and predicate answers symbolic" fns=op::array::some stubs=4 timeout=300 cutdrop=2 group=medium
    //@ desc="some: truth value, error cases, short-circuit evaluation log and scoping (literal-array elements evaluated against the outer data, computed elements passed as data UNPARSED, predicate sees the element) equal the spec"
    quant_harness!(k_c14_some_cnew_2_e3_p1, false, 1, 2, 3, 1);
    //@ob name=C14.some.lit.3.e7.p7 harness=k_c14_some_lit_3_e7_p7 props=C14,C04,C06,C01 tier=thorough strength=bounded bound="literal array of three; 3 elements; element/predicate success pattern e=0b111 p=0b111; values and predicate answers symbolic" fns=op::array::some stubs=4 timeout=300 cutdrop=2 group=medium
    //@ desc="some: truth value, error cases, short-circuit evaluation log and scoping (literal-array elements evaluated against the outer data, computed elements passed as data UNPARSED, predicate sees the element) equal the spec"
    quant_harness!(k_c14_some_lit_3_e7_p7, false, 0, 3, 7, 7);
    //@ob name=C14.some.cnew.3.e7.p7 harness=k_c14_some_cnew_3_e7_p7 props=C14,C04,C06,C01 tier=thorough strength=bounded bound="computed array of three; 3 elements; element/predicate success pattern e=0b111 p=0b111; values and predicate answers symbolic" fns=op::array::some stubs=4 timeout=300 cutdrop=2 group=medium
    //@ desc="some: truth value, error cases, short-circuit evaluation log and scoping (literal-array elements evaluated against the outer data, computed elements passed as data UNPARSED, predicate sees the element) equal the spec"
    quant_harness!(k_c14_some_cnew_3_e7_p7, false, 1, 3, 7, 7);
//@END-GENERATED-QUANT

    // ---- none == !some (some by contract: an arbitrary Result<Bool>)
    pub(crate) static mut SOME_PLAN: u8 = 0;
    pub(crate) fn some_stub(_data: &Value, _args: &Vec<&Value>) -> Result<Value, Error> {
        match unsafe { SOME_PLAN } {
            0 => Err(Error::UnexpectedError(String::new())),
            1 => Ok(Value::Bool(true)),
            _ => Ok(Value::Bool(false)),
        }
    }
    macro_rules! none_harness {
        ($name:ident, $plan:expr) => {
            #[cfg_attr(kani, kani::proof)]
            #[cfg_attr(kani, kani::stub(crate::op::array::some, some_stub))]
            #[cfg_attr(kani, kani::stub(std::fmt::format, crate::verif_support::fmt_stub))]
            pub(crate) fn $name() {
                unsafe { SOME_PLAN = $plan };
                let data = MD::new(Value::Null);
                let args: MD<Vec<&Value>> = MD::new(Vec::new());
                let r = MD::new(none(&data, &args));
                kani::cover!(true, "returned");
                match (&*r, $plan) {
                    (Err(_), 0) => {}
                    (Ok(Value::Bool(b)), 1) => assert!(!*b, "none must be the exact negation of some"),
                    (Ok(Value::Bool(b)), 2) => assert!(*b, "none must be the exact negation of some"),
                    _ => assert!(false, "none: Err iff some is Err, otherwise the negated boolean"),
                }
            }
        };
    }
    //@ob name=C14.none.err harness=k_c14_none_err props=C14,C01 strength=complete fns=op::array::none stubs=2
    //@ desc="none(data,args) is Err when some(data,args) is Err (some by contract)"
    none_harness!(k_c14_none_err, 0);
    //@ob name=C14.none.true harness=k_c14_none_true props=C14,C01 strength=complete fns=op::array::none stubs=2
    //@ desc="none is false when some is true"
    none_harness!(k_c14_none_true, 1);
    //@ob name=C14.none.false harness=k_c14_none_false props=C14,C01 strength=complete fns=op::array::none stubs=2
    //@ desc="none is true when some is false"
    none_harness!(k_c14_none_false, 2);

    // =====================================================================================
    // C13: map / filter (node 0 = collection operand, node 1 = expression, evaluated per element)
    // =====================================================================================
    pub(crate) const C_ARR_NEW: u8 = 0;
    pub(crate) const C_ARR_RAW: u8 = 1;
    pub(crate) const C_NULL: u8 = 2;
    pub(crate) const C_OTHER: u8 = 3; // a number: not an array -> error
    pub(crate) const C_ERR: u8 = 4;

    pub(crate) fn body_mapfilter(is_map: bool, cmode: u8, n: usize, ppat: u32) {
        let e: [u64; 3] = [kani::any(), kani::any(), kani::any()];
        let p: [u64; 3] = [kani::any(), kani::any(), kani::any()];
        let data = MD::new(Value::Bool(true));
        let pvals = [MD::new(num(p[0])), MD::new(num(p[1])), MD::new(num(p[2]))];
        let mut elems: Vec<Value> = Vec::with_capacity(3);
        let mut i = 0;
        while i < n {
            elems.push(num(e[i]));
            i += 1;
        }
        let arr = MD::new(Value::Array(elems));
        let null_v = MD::new(Value::Null);
        let other_v = MD::new(num(5));
        let coll_node = MD::new(Value::Null);
        let expr_node = MD::new(Value::Null);
        let (cclass, cout): (u8, *const Value) = match cmode {
            C_ARR_NEW => (1, &*arr as *const Value),
            C_ARR_RAW => (2, &*arr as *const Value),
            C_NULL => (2, &*null_v as *const Value),
            C_OTHER => (1, &*other_v as *const Value),
            _ => (0, &*null_v as *const Value),
        };
        ev::register(&coll_node, cclass, cout);
        let xn = ev::register(&expr_node, 1, &*null_v as *const Value);
        ev::set_multi(xn);
        let mut j = 0;
        while j < 3 {
            ev::set_multi_outcome(j, if (ppat >> j) & 1 == 1 { if j % 2 == 0 { 1 } else { 2 } } else { 0 }, &*pvals[j] as *const Value);
            j += 1;
        }
        let mut args: Vec<&Value> = Vec::with_capacity(2);
        args.push(&*coll_node);
        args.push(&*expr_node);
        let args = MD::new(args);
        let r = MD::new(if is_map { map(&data, &args) } else { filter(&data, &args) });
        kani::cover!(true, "returned");

        // ---- spec
        let outer_fp = ev::fingerprint(&data);
        let mut k = 1; // the collection, once, against the outer data
        let m = if cmode == C_ARR_NEW || cmode == C_ARR_RAW { n } else { 0 };
        let mut err = cmode == C_OTHER || cmode == C_ERR;
        let mut calls = 0;
        if !err {
            while calls < m {
                calls += 1;
                if (ppat >> (calls - 1)) & 1 == 0 {
                    err = true;
                    break;
                }
            }
        }
        match &*r {
            Err(_) => assert!(err, "map/filter: error although the collection is an array/null and every evaluation succeeds"),
            Ok(Value::Array(out)) => {
                assert!(!err, "map/filter: a value although the collection is not an array / an evaluation failed");
                if is_map {
                    assert!(out.len() == m, "map: result must have exactly one value per element");
                    let mut j = 0;
                    while j < m {
                        assert!(matches!(&out[j], Value::Number(x) if x.as_u64() == Some(p[j])), "map: result[j] must be the expression's value for element j, in order");
                        j += 1;
                    }
                } else {
                    // exactly the elements whose predicate value is truthy, unchanged, in order
                    let mut w = 0;
                    let mut j = 0;
                    while j < m {
                        if p[j] != 0 {
                            assert!(w < out.len() && matches!(&out[w], Value::Number(x) if x.as_u64() == Some(e[j])), "filter: kept elements must be the elements themselves, in order");
                            w += 1;
                        }
                        j += 1;
                    }
                    assert!(out.len() == w, "filter: an element whose predicate is falsy was kept");
                }
            }
            _ => assert!(false, "map/filter must return an array"),
        }
        // evaluation log: collection against outer data, then the expression once per element with the element as data
        assert!(ev::log_len() == 1 + calls, "map/filter: expression must be evaluated exactly once per element (until the first error)");
        assert!(ev::log_at(0).0 == 0 && unsafe { ev::LOG_DATA_FP[0] } == outer_fp, "map/filter: the collection is evaluated first, against the outer data");
        let mut q = 0;
        while q < calls {
            assert!(ev::log_at(1 + q).0 == xn, "map/filter: only the expression is evaluated per element");
            assert!(unsafe { ev::LOG_DATA_FP[1 + q] } == e[q], "map/filter: inside the expression the element itself is the data, in order");
            q += 1;
        }
    }
    macro_rules! mapfilter_harness {
        ($name:ident, $is_map:expr, $cmode:expr, $n:expr, $ppat:expr) => {
            #[cfg_attr(kani, kani::proof)]
            #[cfg_attr(kani, kani::unwind(10))]
            #[cfg_attr(kani, kani::stub(<serde_json::Value as std::clone::Clone>::clone, crate::verif_support::value_clone_shallow))]
            #[cfg_attr(kani, kani::stub(crate::value::Parsed::from_value, crate::value::Parsed::verif_from_value_stub))]
            #[cfg_attr(kani, kani::stub(crate::value::Parsed::evaluate, crate::value::Parsed::verif_evaluate_stub))]
            #[cfg_attr(kani, kani::stub(std::fmt::format, crate::verif_support::fmt_stub))]
            pub(crate) fn $name() {
                body_mapfilter($is_map, $cmode, $n, $ppat);
            }
        };
    }
//@GENERATED-MAPFILTER
    //@ob name=C13.map.new.2.p3 harness=k_c13_map_new_2_p3 props=C13,C04,C06,C01 tier=quick strength=bounded bound="collection outcome new; 2 elements; expression success pattern 0b11; element values and expression values symbolic" fns=op::array::map stubs=4 timeout=300 cutdrop=2 group=medium
    //@ desc="map: collection evaluated once against the outer data, expression once per element with the element itself as data, in order; result = the expression values in order (same length); null collection is empty, other non-arrays and failing evaluations are errors"
    mapfilter_harness!(k_c13_map_new_2_p3, true, 0, 2, 3);
    //@ob name=C13.map.raw.2.p3 harness=k_c13_map_raw_2_p3 props=C13,C04,C06,C01 tier=quick strength=bounded bound="collection outcome raw; 2 elements; expression success pattern 0b11; element values and expression values symbolic" fns=op::array::map stubs=4 timeout=300 cutdrop=2 group=medium
    //@ desc="map: collection evaluated once against the outer data, expression once per element with the element itself as data, in order; result = the expression values in order (same length); null collection is empty, other non-arrays and failing evaluations are errors"
    mapfilter_harness!(k_c13_map_raw_2_p3, true, 1, 2, 3);
    //@ob name=C13.map.null.0.p0 harness=k_c13_map_null_0_p0 props=C13,C04,C06,C01 tier=quick strength=bounded bound="collection outcome null; 0 elements; expression success pattern 0b0; element values and expression values symbolic" fns=op::array::map stubs=4 timeout=300 cutdrop=2 group=medium
    //@ desc="map: collection evaluated once against the outer data, expression once per element with the element itself as data, in order; result = the expression values in order (same length); null collection is empty, other non-arrays and failing evaluations are errors"
    mapfilter_harness!(k_c13_map_null_0_p0, true, 2, 0, 0);
    //@ob name=C13.map.other.0.p0 harness=k_c13_map_other_0_p0 props=C13,C04,C06,C01 tier=quick strength=bounded bound="collection outcome other; 0 elements; expression success pattern 0b0; element values and expression values symbolic" fns=op::array::map stubs=4 timeout=300 cutdrop=2 group=medium
    //@ desc="map: collection evaluated once against the outer data, expression once per element with the element itself as data, in order; result = the expression values in order (same length); null collection is empty, other non-arrays and failing evaluations are errors"
    mapfilter_harness!(k_c13_map_other_0_p0, true, 3, 0, 0);
    //@ob name=C13.map.err.0.p0 harness=k_c13_map_err_0_p0 props=C13,C04,C06,C01 tier=thorough strength=bounded bound="collection outcome err; 0 elements; expression success pattern 0b0; element values and expression values symbolic" fns=op::array::map stubs=4 timeout=300 cutdrop=2 group=medium
    //@ desc="map: collection evaluated once against the outer data, expression once per element with the element itself as data, in order; result = the expression values in order (same length); null collection is empty, other non-arrays and failing evaluations are errors"
    mapfilter_harness!(k_c13_map_err_0_p0, true, 4, 0, 0);
    //@ob name=C13.map.new.0.p0 harness=k_c13_map_new_0_p0 props=C13,C04,C06,C01 tier=thorough strength=bounded bound="collection outcome new; 0 elements; expression success pattern 0b0; element values and expression values symbolic" fns=op::array::map stubs=4 timeout=300 cutdrop=2 group=medium
    //@ desc="map: collection evaluated once against the outer data, expression once per element with the element itself as data, in order; result = the expression values in order (same length); null collection is empty, other non-arrays and failing evaluations are errors"
    mapfilter_harness!(k_c13_map_new_0_p0, true, 0, 0, 0);
    //@ob name=C13.map.raw.2.p1 harness=k_c13_map_raw_2_p1 props=C13,C04,C06,C01 tier=thorough strength=bounded bound="collection outcome raw; 2 elements; expression success pattern 0b1; element values and expression values symbolic" fns=op::array::map stubs=4 timeout=300 cutdrop=2 group=medium
    //@ desc="map: collection evaluated once against the outer data, expression once per element with the element itself as data, in order; result = the expression values in order (same length); null collection is empty, other non-arrays and failing evaluations are errors"
    mapfilter_harness!(k_c13_map_raw_2_p1, true, 1, 2, 1);
    //@ob name=C13.map.new.3.p7 harness=k_c13_map_new_3_p7 props=C13,C04,C06,C01 tier=thorough strength=bounded bound="collection outcome new; 3 elements; expression success pattern 0b111; element values and expression values symbolic" fns=op::array::map stubs=4 timeout=300 cutdrop=2 group=medium
    //@ desc="map: collection evaluated once against the outer data, expression once per element with the element itself as data, in order; result = the expression values in order (same length); null collection is empty, other non-arrays and failing evaluations are errors"
    mapfilter_harness!(k_c13_map_new_3_p7, true, 0, 3, 7);
    //@ob name=C13.filter.new.2.p3 harness=k_c13_filter_new_2_p3 props=C13,C04,C06,C01 tier=quick strength=bounded bound="collection outcome new; 2 elements; expression success pattern 0b11; element values and expression values symbolic" fns=op::array::filter stubs=4 timeout=300 cutdrop=2 group=medium
    //@ desc="filter: collection evaluated once against the outer data, expression once per element with the element itself as data, in order; result = exactly the elements whose value is truthy, unchanged, in order; null collection is empty, other non-arrays and failing evaluations are errors"
    mapfilter_harness!(k_c13_filter_new_2_p3, false, 0, 2, 3);
    //@ob name=C13.filter.raw.2.p3 harness=k_c13_filter_raw_2_p3 props=C13,C04,C06,C01 tier=quick strength=bounded bound="collection outcome raw; 2 elements; expression success pattern 0b11; element values and expression values symbolic" fns=op::array::filter stubs=4 timeout=300 cutdrop=2 group=medium
    //@ desc="filter: collection evaluated once against the outer data, expression once per element with the element itself as data, in order; result = exactly the elements whose value is truthy, unchanged, in order; null collection is empty, other non-arrays and failing evaluations are errors"
    mapfilter_harness!(k_c13_filter_raw_2_p3, false, 1, 2, 3);
    //@ob name=C13.filter.null.0.p0 harness=k_c13_filter_null_0_p0 props=C13,C04,C06,C01 tier=quick strength=bounded bound="collection outcome null; 0 elements; expression success pattern 0b0; element values and expression values symbolic" fns=op::array::filter stubs=4 timeout=300 cutdrop=2 group=medium
    //@ desc="filter: collection evaluated once against the outer data, expression once per element with the element itself as data, in order; result = exactly the elements whose value is truthy, unchanged, in order; null collection is empty, other non-arrays and failing evaluations are errors"
    mapfilter_harness!(k_c13_filter_null_0_p0, false, 2, 0, 0);
    //@ob name=C13.filter.other.0.p0 harness=k_c13_filter_other_0_p0 props=C13,C04,C06,C01 tier=quick strength=bounded bound="collection outcome other; 0 elements; expression success pattern 0b0; element values and expression values symbolic" fns=op::array::filter stubs=4 timeout=300 cutdrop=2 group=medium
    //@ desc="filter: collection evaluated once against the outer data, expression once per element with the element itself as data, in order; result = exactly the elements whose value is truthy, unchanged, in order; null collection is empty, other non-arrays and failing evaluations are errors"
    mapfilter_harness!(k_c13_filter_other_0_p0, false, 3, 0, 0);
    //@ob name=C13.filter.err.0.p0 harness=k_c13_filter_err_0_p0 props=C13,C04,C06,C01 tier=thorough strength=bounded bound="collection outcome err; 0 elements; expression success pattern 0b0; element values and expression values symbolic" fns=op::array::filter stubs=4 timeout=300 cutdrop=2 group=medium
    //@ desc="filter: collection evaluated once against the outer data, expression once per element with the element itself as data, in order; result = exactly the elements whose value is truthy, unchanged, in order; null collection is empty, other non-arrays and failing evaluations are errors"
    mapfilter_harness!(k_c13_filter_err_0_p0, false, 4, 0, 0);
    //@ob name=C13.filter.new.0.p0 harness=k_c13_filter_new_0_p0 props=C13,C04,C06,C01 tier=thorough strength=bounded bound="collection outcome new; 0 elements; expression success pattern 0b0; element values and expression values symbolic" fns=op::array::filter stubs=4 timeout=300 cutdrop=2 group=medium
    //@ desc="filter: collection evaluated once against the outer data, expression once per element with the element itself as data, in order; result = exactly the elements whose value is truthy, unchanged, in order; null collection is empty, other non-arrays and failing evaluations are errors"
    mapfilter_harness!(k_c13_filter_new_0_p0, false, 0, 0, 0);
    //@ob name=C13.filter.raw.2.p1 harness=k_c13_filter_raw_2_p1 props=C13,C04,C06,C01 tier=thorough strength=bounded bound="collection outcome raw; 2 elements; expression success pattern 0b1; element values and expression values symbolic" fns=op::array::filter stubs=4 timeout=300 cutdrop=2 group=medium
    //@ desc="filter: collection evaluated once against the outer data, expression once per element with the element itself as data, in order; result = exactly the elements whose value is truthy, unchanged, in order; null collection is empty, other non-arrays and failing evaluations are errors"
    mapfilter_harness!(k_c13_filter_raw_2_p1, false, 1, 2, 1);
    //@ob name=C13.filter.new.3.p7 harness=k_c13_filter_new_3_p7 props=C13,C04,C06,C01 tier=thorough strength=bounded bound="collection outcome new; 3 elements; expression success pattern 0b111; element values and expression values symbolic" fns=op::array::filter stubs=4 timeout=300 cutdrop=2 group=medium
    //@ desc="filter: collection evaluated once against the outer data, expression once per element with the element itself as data, in order; result = exactly the elements whose value is truthy, unchanged, in order; null collection is empty, other non-arrays and failing evaluations are errors"
    mapfilter_harness!(k_c13_filter_new_3_p7, false, 0, 3, 7);
//@END-GENERATED-MAPFILTER
}

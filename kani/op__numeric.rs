#[cfg(any(kani, verif_replay))]
#[allow(dead_code, unused_imports, unused_variables, unused_macros, unused_mut, static_mut_refs)]
pub(crate) mod verif_numeric {
    use super::*;
    #[cfg(verif_replay)]
    use crate::verif_support::shim as kani;
    use crate::verif_support::*;
    use serde_json::Number;

    const INT_GRID: [i64; 10] = [0, 1, 2, 3, -7, 10, 9007199254740992, 9007199254740993, i64::MAX, i64::MIN];

    //@ob name=C10.minus.numbers props=C10,C01 strength=bounded bound="operands: 10 integers (0,1,2,3,-7,10,2^53,2^53+1,i64::MAX,i64::MIN), spelled as JSON integers; two operands" fns=op::numeric::minus,js_op::abstract_minus,js_op::to_negative,value::to_number_value stubs=2 replay=generic timeout=400
    //@ desc="the `-` operator on JSON integers is the JSON number for the IEEE-754 difference (or negation) of their doubles: 9007199254740993 - 1 is 9007199254740991, never integer arithmetic"
    #[cfg_attr(kani, kani::proof)]
    #[cfg_attr(kani, kani::unwind(4))]
    #[cfg_attr(kani, kani::stub(crate::js_op::to_string, crate::js_op::verif_js_op::to_string_stub))]
    #[cfg_attr(kani, kani::stub(std::fmt::format, crate::verif_support::fmt_stub))]
    pub(crate) fn k_c10_minus_numbers() {
        let sa: usize = kani::any();
        let sb: usize = kani::any();
        kani::assume(sa < 10 && sb < 10);
        let two: bool = true; // (the one-operand form is covered by K:C10.to_negative and K:C10.bind.minus1)
        let a = MD::new(Value::Number(Number::from(INT_GRID[sa])));
        let b = MD::new(Value::Number(Number::from(INT_GRID[sb])));
        let mut items: Vec<&Value> = Vec::with_capacity(2);
        items.push(&*a);
        if two {
            items.push(&*b);
        }
        let items = MD::new(items);
        #[cfg(verif_replay)]
        eprintln!("REPLAY-INPUT: minus({:?})", &*items);
        let r = MD::new(minus(&items));
        kani::cover!(true, "returned");
        let x = INT_GRID[sa] as f64;
        let y = INT_GRID[sb] as f64;
        let expect = if two { x - y } else { -x };
        assert!(crate::value::verif_value::post_to_number_value(expect, &r), "`-` on JSON integers must be the JSON number of the IEEE-754 result on their doubles");
    }
}

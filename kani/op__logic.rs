#[cfg(any(kani, verif_replay))]
#[allow(dead_code, unused_imports, unused_variables, unused_macros, unused_mut, static_mut_refs)]
pub(crate) mod verif_logic {
    use super::*;
    #[cfg(verif_replay)]
    use crate::verif_support::shim as kani;
    use crate::verif_support::*;
    use serde_json::Number;

    // =====================================================================================
    // C06: truthy on numbers and strings (the branches Verus cannot see)
    // =====================================================================================
    //@ob name=C06.truthy.number props=C06,C01 strength=complete fns=op::logic::truthy,op::logic::truthy_from_evaluated replay=generic
    //@ desc="truthy(Number n) == (n != 0) for every i64, u64 and finite f64 (so 0, -0, 0.0 and -0.0 are falsy, everything else truthy); truthy_from_evaluated agrees on New and Raw"
    #[cfg_attr(kani, kani::proof)]
    pub(crate) fn k_c06_truthy_number() {
        let n = any_number();
        let x = n.as_f64().unwrap();
        let v = MD::new(Value::Number(n));
        #[cfg(verif_replay)]
        eprintln!("REPLAY-INPUT: truthy({})", &*v);
        let r = truthy(&v);
        kani::cover!(r);
        kani::cover!(!r);
        assert!(r == (x != 0.0), "truthy(number): zero (incl. -0) is falsy, every other number truthy");
        assert!(truthy_from_evaluated(&Evaluated::Raw(&*v)) == r, "truthy_from_evaluated(Raw) disagrees with truthy");
        let ev = MD::new(Evaluated::New(Value::Number(match &*v { Value::Number(n) => n.clone(), _ => unreachable!() })));
        assert!(truthy_from_evaluated(&ev) == r, "truthy_from_evaluated(New) disagrees with truthy");
    }

    fn check_truthy_string<const N: usize>() {
        let s = if N == 0 { String::new() } else { any_ascii_string::<N>() };
        let v = MD::new(Value::String(s));
        #[cfg(verif_replay)]
        eprintln!("REPLAY-INPUT: truthy({})", &*v);
        let r = truthy(&v);
        kani::cover!(true, "reached");
        assert!(r == (N != 0), "truthy(string): only the empty string is falsy");
    }
    //@ob name=C06.truthy.string0 props=C06,C01 strength=complete fns=op::logic::truthy replay=generic
    //@ desc="truthy(\"\") is false"
    #[cfg_attr(kani, kani::proof)]
    pub(crate) fn k_c06_truthy_string0() {
        check_truthy_string::<0>();
    }
    //@ob name=C06.truthy.string1 props=C06,C01 strength=bounded bound="every 1-byte ASCII string" fns=op::logic::truthy replay=generic
    //@ desc="truthy(s) is true for every one-character string (\"0\", \" \", ...)"
    #[cfg_attr(kani, kani::proof)]
    pub(crate) fn k_c06_truthy_string1() {
        check_truthy_string::<1>();
    }
    //@ob name=C06.truthy.string3 props=C06,C01 strength=bounded bound="every 3-byte ASCII string" fns=op::logic::truthy replay=generic
    //@ desc="truthy(s) is true for every three-character ASCII string"
    #[cfg_attr(kani, kani::proof)]
    pub(crate) fn k_c06_truthy_string3() {
        check_truthy_string::<3>();
    }

    fn check_truthy_shape(sel: u8) {
        let b: bool = kani::any();
        let (v, expect) = match sel {
            0 => (Value::Null, false),
            1 => (Value::Bool(b), b),
            2 => (Value::Array(vec![]), false),
            3 => (Value::Array(vec![Value::Number(Number::from(0))]), true),
            4 => (Value::Array(vec![Value::Array(vec![]), Value::Null]), true),
            5 => (Value::Object(serde_json::Map::new()), true),
            _ => {
                let mut m = serde_json::Map::new();
                m.insert(String::from("a"), Value::Null);
                (Value::Object(m), true)
            }
        };
        let v = MD::new(v);
        #[cfg(verif_replay)]
        eprintln!("REPLAY-INPUT: truthy({})", &*v);
        let r = truthy(&v);
        kani::cover!(true, "reached");
        assert!(r == expect, "truthy differs from the JsonLogic table");
    }
    macro_rules! truthy_shape {
        ($name:ident, $sel:expr) => {
            #[cfg_attr(kani, kani::proof)]
            pub(crate) fn $name() {
                check_truthy_shape($sel);
            }
        };
    }
    //@ob name=C06.truthy.shape.null harness=k_c06_truthy_null props=C06,C01 strength=complete fns=op::logic::truthy replay=generic
    //@ desc="truthy(null) is false (bit-precise twin of V:logic.truthy)"
    truthy_shape!(k_c06_truthy_null, 0);
    //@ob name=C06.truthy.shape.bool harness=k_c06_truthy_bool props=C06,C01 strength=complete fns=op::logic::truthy replay=generic
    //@ desc="truthy(bool) is the bool"
    truthy_shape!(k_c06_truthy_bool, 1);
    //@ob name=C06.truthy.shape.empty_array harness=k_c06_truthy_arr0 props=C06,C01 strength=bounded bound="the value []" fns=op::logic::truthy replay=generic
    //@ desc="truthy([]) is false"
    truthy_shape!(k_c06_truthy_arr0, 2);
    //@ob name=C06.truthy.shape.array_of_zero harness=k_c06_truthy_arr1 props=C06,C01 strength=bounded bound="the value [0]" fns=op::logic::truthy replay=generic
    //@ desc="truthy([0]) is true"
    truthy_shape!(k_c06_truthy_arr1, 3);
    //@ob name=C06.truthy.shape.nested_array harness=k_c06_truthy_arr2 props=C06,C01 strength=bounded bound="the value [[],null]" fns=op::logic::truthy replay=generic
    //@ desc="truthy([[],null]) is true"
    truthy_shape!(k_c06_truthy_arr2, 4);
    //@ob name=C06.truthy.shape.empty_object harness=k_c06_truthy_obj0 props=C06,C01 strength=bounded bound="the value {}" fns=op::logic::truthy replay=generic
    //@ desc="truthy({}) is true"
    truthy_shape!(k_c06_truthy_obj0, 5);
    //@ob name=C06.truthy.shape.object harness=k_c06_truthy_obj1 props=C06,C01 strength=bounded bound="the value {a:null}" fns=op::logic::truthy replay=generic
    //@ desc="truthy({\"a\":null}) is true"
    truthy_shape!(k_c06_truthy_obj1, 6);

    // =====================================================================================
    // C05 / C04 / C06: or, and, if_ with the evaluator by contract.
    // Operand i is rule node i; its outcome is Err or Ok(Number(u_i)) (u_i independent symbolic u64,
    // truthy iff != 0), delivered as Evaluated::New or Evaluated::Raw. The Err/Ok pattern and the
    // New/Raw choice are concrete per harness instance (keeps every discriminant concrete);
    // truthiness of every Ok operand is symbolic.
    // =====================================================================================
    pub(crate) struct Ops {
        pub nodes: [MD<Value>; 6],
        pub outs: [MD<Value>; 6],
        pub u: [u64; 6],
        pub n: usize,
        pub data: MD<Value>,
    }
    /// `pat` digit i (base 4): 0 = evaluation Err, 1 = Ok(New), 2 = Ok(Raw), 3 = invalid at parse time (from_value Err)
    pub(crate) fn setup(n: usize, pat: u32) -> Ops {
        let mut u = [0u64; 6];
        let mut i = 0;
        while i < 6 {
            u[i] = kani::any();
            i += 1;
        }
        let ops = Ops {
            nodes: [MD::new(Value::Null), MD::new(Value::Null), MD::new(Value::Null), MD::new(Value::Null), MD::new(Value::Null), MD::new(Value::Null)],
            outs: [
                MD::new(Value::Number(ev::outcome_number(0, u[0]))),
                MD::new(Value::Number(ev::outcome_number(1, u[1]))),
                MD::new(Value::Number(ev::outcome_number(2, u[2]))),
                MD::new(Value::Number(ev::outcome_number(3, u[3]))),
                MD::new(Value::Number(ev::outcome_number(4, u[4]))),
                MD::new(Value::Number(ev::outcome_number(5, u[5]))),
            ],
            u,
            n,
            data: MD::new(Value::Bool(true)),
        };
        ops
    }
    pub(crate) fn class_of(pat: u32, i: usize) -> u8 {
        let mut p = pat;
        let mut k = 0;
        while k < i {
            p /= 4;
            k += 1;
        }
        (p % 4) as u8
    }
    pub(crate) fn register_all(ops: &Ops, pat: u32) {
        let mut i = 0;
        while i < ops.n {
            ev::register_num(&ops.nodes[i], class_of(pat, i), &*ops.outs[i] as *const Value, ops.u[i]);
            i += 1;
        }
    }
    /// expected (result index | special, evaluation order) for or/and. result: Some(i) = value of operand i; None = Err
    pub(crate) fn spec_or_and(ops: &Ops, pat: u32, is_or: bool, log: &mut [usize; 8]) -> (Option<usize>, usize) {
        let mut k = 0;
        let mut i = 0;
        while i < ops.n {
            if class_of(pat, i) == 3 {
                // reached, but it does not even parse: error, nothing evaluated
                return (None, k);
            }
            log[k] = i;
            k += 1;
            if class_of(pat, i) == 0 {
                return (None, k);
            }
            let t = ops.u[i] != 0;
            if t == is_or {
                return (Some(i), k);
            }
            if i + 1 == ops.n {
                return (Some(i), k);
            }
            i += 1;
        }
        (None, k)
    }
    pub(crate) fn check_result(ops: &Ops, r: &Result<Value, Error>, want: Option<usize>, null_ok: bool) {
        match (r, want) {
            (Err(_), None) => {}
            (Ok(Value::Number(n)), Some(i)) => assert!(ev::is_outcome_number(n, i, ops.u[i]), "lazy operator returned the value of the wrong operand (or a boolean instead of the value itself)"),
            (Ok(Value::Null), None) if null_ok => {}
            _ => assert!(false, "lazy operator: result differs from the spec (Err vs value vs null)"),
        }
    }
    pub(crate) fn check_log(ops: &Ops, log: &[usize; 8], k: usize) {
        assert!(ev::log_len() == k, "evaluation log: an operand that must not be evaluated was evaluated, or a needed one was not (short-circuit / at-most-once)");
        let mut j = 0;
        while j < k {
            let (node, d) = ev::log_at(j);
            assert!(node == log[j], "evaluation order differs from the spec");
            assert!(d == &*ops.data as *const Value, "operand evaluated against something other than the outer data");
            j += 1;
        }
    }

    macro_rules! lazy_harness {
        ($name:ident, $n:expr, $pat:expr, $body:ident) => {
            #[cfg_attr(kani, kani::proof)]
            #[cfg_attr(kani, kani::unwind(10))]
            #[cfg_attr(kani, kani::stub(<serde_json::Value as std::clone::Clone>::clone, crate::verif_support::value_clone_shallow))]
            #[cfg_attr(kani, kani::stub(crate::value::Parsed::from_value, crate::value::Parsed::verif_from_value_stub))]
            #[cfg_attr(kani, kani::stub(crate::value::Parsed::evaluate, crate::value::Parsed::verif_evaluate_stub))]
            #[cfg_attr(kani, kani::stub(std::fmt::format, crate::verif_support::fmt_stub))]
            pub(crate) fn $name() {
                $body($n, $pat);
            }
        };
    }
    fn args_of(ops: &Ops) -> MD<Vec<&Value>> {
        let mut v: Vec<&Value> = Vec::with_capacity(6);
        let mut i = 0;
        while i < ops.n {
            v.push(&*ops.nodes[i]);
            i += 1;
        }
        MD::new(v)
    }
    pub(crate) fn body_or(n: usize, pat: u32) {
        let ops = setup(n, pat);
        register_all(&ops, pat);
        let args = args_of(&ops);
        let r = MD::new(or(&ops.data, &args));
        kani::cover!(true, "returned");
        let mut log = [0usize; 8];
        let (want, k) = spec_or_and(&ops, pat, true, &mut log);
        check_result(&ops, &r, want, false);
        check_log(&ops, &log, k);
    }
    pub(crate) fn body_and(n: usize, pat: u32) {
        let ops = setup(n, pat);
        register_all(&ops, pat);
        let args = args_of(&ops);
        let r = MD::new(and(&ops.data, &args));
        kani::cover!(true, "returned");
        let mut log = [0usize; 8];
        let (want, k) = spec_or_and(&ops, pat, false, &mut log);
        check_result(&ops, &r, want, false);
        check_log(&ops, &log, k);
    }
    /// C05 `if`: conditions left to right; the branch paired with the first truthy condition, else the trailing
    /// else-operand, else null; one operand: that operand as evaluated; none: null.
    pub(crate) fn body_if(n: usize, pat: u32) {
        let ops = setup(n, pat);
        register_all(&ops, pat);
        let args = args_of(&ops);
        let r = MD::new(if_(&ops.data, &args));
        kani::cover!(true, "returned");
        let mut log = [0usize; 8];
        let mut k = 0;
        // want: Ok(Some(i)) value of operand i, Ok(None) null, Err
        let mut want: Result<Option<usize>, ()> = Ok(None);
        if n == 1 {
            if class_of(pat, 0) == 3 {
                want = Err(());
            } else {
                log[0] = 0;
                k = 1;
                want = if class_of(pat, 0) == 0 { Err(()) } else { Ok(Some(0)) };
            }
        } else if n >= 2 {
            let mut i = 0;
            loop {
                if i >= n {
                    want = Ok(None);
                    break;
                }
                // operand i: a condition, or the trailing else when it is the last of an odd-length list
                if class_of(pat, i) == 3 {
                    want = Err(());
                    break;
                }
                log[k] = i;
                k += 1;
                if class_of(pat, i) == 0 {
                    want = Err(());
                    break;
                }
                if i + 1 == n {
                    want = Ok(Some(i));
                    break;
                }
                if ops.u[i] != 0 {
                    if class_of(pat, i + 1) == 3 {
                        want = Err(());
                        break;
                    }
                    log[k] = i + 1;
                    k += 1;
                    want = if class_of(pat, i + 1) == 0 { Err(()) } else { Ok(Some(i + 1)) };
                    break;
                }
                i += 2;
            }
        }
        match want {
            Err(()) => check_result(&ops, &r, None, false),
            Ok(None) => assert!(matches!(&*r, Ok(Value::Null)), "if: no branch selected must give null"),
            Ok(Some(i)) => check_result(&ops, &r, Some(i), false),
        }
        check_log(&ops, &log, k);
    }
//@GENERATED-LAZY
    //@ob name=C05.or.1.E harness=k_c05_or_1_E props=C05,C04 tier=quick strength=bounded bound="1 operands; outcome pattern E (E=evaluation error, N=new value, R=raw value, P=does not parse); truthiness of every value symbolic" fns=op::logic::or stubs=4 timeout=300 cutdrop=1 group=medium
    //@ desc="or over 1 operands: result (the deciding operand's value itself, or error/null) and the exact evaluation log (which operands, in which order, each at most once, against the outer data) equal the spec; an operand that is not needed has no effect even if it is invalid; the parser is applied to rule text only"
    lazy_harness!(k_c05_or_1_E, 1, 0, body_or);
    //@ob name=C05.or.1.N harness=k_c05_or_1_N props=C05,C04 tier=quick strength=bounded bound="1 operands; outcome pattern N (E=evaluation error, N=new value, R=raw value, P=does not parse); truthiness of every value symbolic" fns=op::logic::or stubs=4 timeout=300 cutdrop=1 group=medium
    //@ desc="or over 1 operands: result (the deciding operand's value itself, or error/null) and the exact evaluation log (which operands, in which order, each at most once, against the outer data) equal the spec; an operand that is not needed has no effect even if it is invalid; the parser is applied to rule text only"
    lazy_harness!(k_c05_or_1_N, 1, 1, body_or);
    //@ob name=C05.or.2.NE harness=k_c05_or_2_NE props=C05,C04 tier=quick strength=bounded bound="2 operands; outcome pattern NE (E=evaluation error, N=new value, R=raw value, P=does not parse); truthiness of every value symbolic" fns=op::logic::or stubs=4 timeout=300 cutdrop=1 group=medium
    //@ desc="or over 2 operands: result (the deciding operand's value itself, or error/null) and the exact evaluation log (which operands, in which order, each at most once, against the outer data) equal the spec; an operand that is not needed has no effect even if it is invalid; the parser is applied to rule text only"
    lazy_harness!(k_c05_or_2_NE, 2, 1, body_or);
    //@ob name=C05.or.2.ER harness=k_c05_or_2_ER props=C05,C04 tier=off strength=bounded bound="2 operands; outcome pattern ER (E=evaluation error, N=new value, R=raw value, P=does not parse); truthiness of every value symbolic" fns=op::logic::or stubs=4 timeout=300 cutdrop=1 group=heavy
    //@ desc="or over 2 operands: result (the deciding operand's value itself, or error/null) and the exact evaluation log (which operands, in which order, each at most once, against the outer data) equal the spec; an operand that is not needed has no effect even if it is invalid; the parser is applied to rule text only"
    lazy_harness!(k_c05_or_2_ER, 2, 8, body_or);
    //@ob name=C05.or.2.NR harness=k_c05_or_2_NR props=C05,C04 tier=quick strength=bounded bound="2 operands; outcome pattern NR (E=evaluation error, N=new value, R=raw value, P=does not parse); truthiness of every value symbolic" fns=op::logic::or stubs=4 timeout=300 cutdrop=1 group=medium
    //@ desc="or over 2 operands: result (the deciding operand's value itself, or error/null) and the exact evaluation log (which operands, in which order, each at most once, against the outer data) equal the spec; an operand that is not needed has no effect even if it is invalid; the parser is applied to rule text only"
    lazy_harness!(k_c05_or_2_NR, 2, 9, body_or);
    //@ob name=C05.or.2.NP harness=k_c05_or_2_NP props=C05,C04 tier=off strength=bounded bound="2 operands; outcome pattern NP (E=evaluation error, N=new value, R=raw value, P=does not parse); truthiness of every value symbolic" fns=op::logic::or stubs=4 timeout=300 cutdrop=1 group=medium
    //@ desc="or over 2 operands: result (the deciding operand's value itself, or error/null) and the exact evaluation log (which operands, in which order, each at most once, against the outer data) equal the spec; an operand that is not needed has no effect even if it is invalid; the parser is applied to rule text only"
    lazy_harness!(k_c05_or_2_NP, 2, 13, body_or);
    //@ob name=C05.or.3.NRE harness=k_c05_or_3_NRE props=C05,C04 tier=thorough strength=bounded bound="3 operands; outcome pattern NRE (E=evaluation error, N=new value, R=raw value, P=does not parse); truthiness of every value symbolic" fns=op::logic::or stubs=4 timeout=300 cutdrop=1 group=medium
    //@ desc="or over 3 operands: result (the deciding operand's value itself, or error/null) and the exact evaluation log (which operands, in which order, each at most once, against the outer data) equal the spec; an operand that is not needed has no effect even if it is invalid; the parser is applied to rule text only"
    lazy_harness!(k_c05_or_3_NRE, 3, 9, body_or);
    //@ob name=C05.or.3.NEN harness=k_c05_or_3_NEN props=C05,C04 tier=off strength=bounded bound="3 operands; outcome pattern NEN (E=evaluation error, N=new value, R=raw value, P=does not parse); truthiness of every value symbolic" fns=op::logic::or stubs=4 timeout=300 cutdrop=1 group=heavy
    //@ desc="or over 3 operands: result (the deciding operand's value itself, or error/null) and the exact evaluation log (which operands, in which order, each at most once, against the outer data) equal the spec; an operand that is not needed has no effect even if it is invalid; the parser is applied to rule text only"
    lazy_harness!(k_c05_or_3_NEN, 3, 17, body_or);
    //@ob name=C05.or.3.ERN harness=k_c05_or_3_ERN props=C05,C04 tier=off strength=bounded bound="3 operands; outcome pattern ERN (E=evaluation error, N=new value, R=raw value, P=does not parse); truthiness of every value symbolic" fns=op::logic::or stubs=4 timeout=300 cutdrop=1 group=heavy
    //@ desc="or over 3 operands: result (the deciding operand's value itself, or error/null) and the exact evaluation log (which operands, in which order, each at most once, against the outer data) equal the spec; an operand that is not needed has no effect even if it is invalid; the parser is applied to rule text only"
    lazy_harness!(k_c05_or_3_ERN, 3, 24, body_or);
    //@ob name=C05.or.3.NRN harness=k_c05_or_3_NRN props=C05,C04 tier=quick strength=bounded bound="3 operands; outcome pattern NRN (E=evaluation error, N=new value, R=raw value, P=does not parse); truthiness of every value symbolic" fns=op::logic::or stubs=4 timeout=300 cutdrop=1 group=medium
    //@ desc="or over 3 operands: result (the deciding operand's value itself, or error/null) and the exact evaluation log (which operands, in which order, each at most once, against the outer data) equal the spec; an operand that is not needed has no effect even if it is invalid; the parser is applied to rule text only"
    lazy_harness!(k_c05_or_3_NRN, 3, 25, body_or);
    //@ob name=C05.or.3.NNP harness=k_c05_or_3_NNP props=C05,C04 tier=off strength=bounded bound="3 operands; outcome pattern NNP (E=evaluation error, N=new value, R=raw value, P=does not parse); truthiness of every value symbolic" fns=op::logic::or stubs=4 timeout=300 cutdrop=1 group=medium
    //@ desc="or over 3 operands: result (the deciding operand's value itself, or error/null) and the exact evaluation log (which operands, in which order, each at most once, against the outer data) equal the spec; an operand that is not needed has no effect even if it is invalid; the parser is applied to rule text only"
    lazy_harness!(k_c05_or_3_NNP, 3, 53, body_or);
    //@ob name=C05.or.4.NRNE harness=k_c05_or_4_NRNE props=C05,C04 tier=thorough strength=bounded bound="4 operands; outcome pattern NRNE (E=evaluation error, N=new value, R=raw value, P=does not parse); truthiness of every value symbolic" fns=op::logic::or stubs=4 timeout=300 cutdrop=1 group=medium
    //@ desc="or over 4 operands: result (the deciding operand's value itself, or error/null) and the exact evaluation log (which operands, in which order, each at most once, against the outer data) equal the spec; an operand that is not needed has no effect even if it is invalid; the parser is applied to rule text only"
    lazy_harness!(k_c05_or_4_NRNE, 4, 25, body_or);
    //@ob name=C05.or.4.NRER harness=k_c05_or_4_NRER props=C05,C04 tier=off strength=bounded bound="4 operands; outcome pattern NRER (E=evaluation error, N=new value, R=raw value, P=does not parse); truthiness of every value symbolic" fns=op::logic::or stubs=4 timeout=300 cutdrop=1 group=heavy
    //@ desc="or over 4 operands: result (the deciding operand's value itself, or error/null) and the exact evaluation log (which operands, in which order, each at most once, against the outer data) equal the spec; an operand that is not needed has no effect even if it is invalid; the parser is applied to rule text only"
    lazy_harness!(k_c05_or_4_NRER, 4, 137, body_or);
    //@ob name=C05.or.4.NENR harness=k_c05_or_4_NENR props=C05,C04 tier=off strength=bounded bound="4 operands; outcome pattern NENR (E=evaluation error, N=new value, R=raw value, P=does not parse); truthiness of every value symbolic" fns=op::logic::or stubs=4 timeout=300 cutdrop=1 group=heavy
    //@ desc="or over 4 operands: result (the deciding operand's value itself, or error/null) and the exact evaluation log (which operands, in which order, each at most once, against the outer data) equal the spec; an operand that is not needed has no effect even if it is invalid; the parser is applied to rule text only"
    lazy_harness!(k_c05_or_4_NENR, 4, 145, body_or);
    //@ob name=C05.or.4.ERNR harness=k_c05_or_4_ERNR props=C05,C04 tier=off strength=bounded bound="4 operands; outcome pattern ERNR (E=evaluation error, N=new value, R=raw value, P=does not parse); truthiness of every value symbolic" fns=op::logic::or stubs=4 timeout=300 cutdrop=1 group=heavy
    //@ desc="or over 4 operands: result (the deciding operand's value itself, or error/null) and the exact evaluation log (which operands, in which order, each at most once, against the outer data) equal the spec; an operand that is not needed has no effect even if it is invalid; the parser is applied to rule text only"
    lazy_harness!(k_c05_or_4_ERNR, 4, 152, body_or);
    //@ob name=C05.or.4.NRNR harness=k_c05_or_4_NRNR props=C05,C04 tier=thorough strength=bounded bound="4 operands; outcome pattern NRNR (E=evaluation error, N=new value, R=raw value, P=does not parse); truthiness of every value symbolic" fns=op::logic::or stubs=4 timeout=300 cutdrop=1 group=medium
    //@ desc="or over 4 operands: result (the deciding operand's value itself, or error/null) and the exact evaluation log (which operands, in which order, each at most once, against the outer data) equal the spec; an operand that is not needed has no effect even if it is invalid; the parser is applied to rule text only"
    lazy_harness!(k_c05_or_4_NRNR, 4, 153, body_or);
    //@ob name=C05.or.5.NRNRE harness=k_c05_or_5_NRNRE props=C05,C04 tier=thorough strength=bounded bound="5 operands; outcome pattern NRNRE (E=evaluation error, N=new value, R=raw value, P=does not parse); truthiness of every value symbolic" fns=op::logic::or stubs=4 timeout=300 cutdrop=1 group=medium
    //@ desc="or over 5 operands: result (the deciding operand's value itself, or error/null) and the exact evaluation log (which operands, in which order, each at most once, against the outer data) equal the spec; an operand that is not needed has no effect even if it is invalid; the parser is applied to rule text only"
    lazy_harness!(k_c05_or_5_NRNRE, 5, 153, body_or);
    //@ob name=C05.or.5.NRNEN harness=k_c05_or_5_NRNEN props=C05,C04 tier=off strength=bounded bound="5 operands; outcome pattern NRNEN (E=evaluation error, N=new value, R=raw value, P=does not parse); truthiness of every value symbolic" fns=op::logic::or stubs=4 timeout=300 cutdrop=1 group=heavy
    //@ desc="or over 5 operands: result (the deciding operand's value itself, or error/null) and the exact evaluation log (which operands, in which order, each at most once, against the outer data) equal the spec; an operand that is not needed has no effect even if it is invalid; the parser is applied to rule text only"
    lazy_harness!(k_c05_or_5_NRNEN, 5, 281, body_or);
    //@ob name=C05.or.5.NRERN harness=k_c05_or_5_NRERN props=C05,C04 tier=off strength=bounded bound="5 operands; outcome pattern NRERN (E=evaluation error, N=new value, R=raw value, P=does not parse); truthiness of every value symbolic" fns=op::logic::or stubs=4 timeout=300 cutdrop=1 group=heavy
    //@ desc="or over 5 operands: result (the deciding operand's value itself, or error/null) and the exact evaluation log (which operands, in which order, each at most once, against the outer data) equal the spec; an operand that is not needed has no effect even if it is invalid; the parser is applied to rule text only"
    lazy_harness!(k_c05_or_5_NRERN, 5, 393, body_or);
    //@ob name=C05.or.5.NENRN harness=k_c05_or_5_NENRN props=C05,C04 tier=off strength=bounded bound="5 operands; outcome pattern NENRN (E=evaluation error, N=new value, R=raw value, P=does not parse); truthiness of every value symbolic" fns=op::logic::or stubs=4 timeout=300 cutdrop=1 group=heavy
    //@ desc="or over 5 operands: result (the deciding operand's value itself, or error/null) and the exact evaluation log (which operands, in which order, each at most once, against the outer data) equal the spec; an operand that is not needed has no effect even if it is invalid; the parser is applied to rule text only"
    lazy_harness!(k_c05_or_5_NENRN, 5, 401, body_or);
    //@ob name=C05.or.5.ERNRN harness=k_c05_or_5_ERNRN props=C05,C04 tier=off strength=bounded bound="5 operands; outcome pattern ERNRN (E=evaluation error, N=new value, R=raw value, P=does not parse); truthiness of every value symbolic" fns=op::logic::or stubs=4 timeout=300 cutdrop=1 group=heavy
    //@ desc="or over 5 operands: result (the deciding operand's value itself, or error/null) and the exact evaluation log (which operands, in which order, each at most once, against the outer data) equal the spec; an operand that is not needed has no effect even if it is invalid; the parser is applied to rule text only"
    lazy_harness!(k_c05_or_5_ERNRN, 5, 408, body_or);
    //@ob name=C05.or.5.NRNRN harness=k_c05_or_5_NRNRN props=C05,C04 tier=thorough strength=bounded bound="5 operands; outcome pattern NRNRN (E=evaluation error, N=new value, R=raw value, P=does not parse); truthiness of every value symbolic" fns=op::logic::or stubs=4 timeout=300 cutdrop=1 group=medium
    //@ desc="or over 5 operands: result (the deciding operand's value itself, or error/null) and the exact evaluation log (which operands, in which order, each at most once, against the outer data) equal the spec; an operand that is not needed has no effect even if it is invalid; the parser is applied to rule text only"
    lazy_harness!(k_c05_or_5_NRNRN, 5, 409, body_or);
    //@ob name=C05.and.1.E harness=k_c05_and_1_E props=C05,C04 tier=quick strength=bounded bound="1 operands; outcome pattern E (E=evaluation error, N=new value, R=raw value, P=does not parse); truthiness of every value symbolic" fns=op::logic::and stubs=4 timeout=300 cutdrop=1 group=medium
    //@ desc="and over 1 operands: result (the deciding operand's value itself, or error/null) and the exact evaluation log (which operands, in which order, each at most once, against the outer data) equal the spec; an operand that is not needed has no effect even if it is invalid; the parser is applied to rule text only"
    lazy_harness!(k_c05_and_1_E, 1, 0, body_and);
    //@ob name=C05.and.1.N harness=k_c05_and_1_N props=C05,C04 tier=quick strength=bounded bound="1 operands; outcome pattern N (E=evaluation error, N=new value, R=raw value, P=does not parse); truthiness of every value symbolic" fns=op::logic::and stubs=4 timeout=300 cutdrop=1 group=medium
    //@ desc="and over 1 operands: result (the deciding operand's value itself, or error/null) and the exact evaluation log (which operands, in which order, each at most once, against the outer data) equal the spec; an operand that is not needed has no effect even if it is invalid; the parser is applied to rule text only"
    lazy_harness!(k_c05_and_1_N, 1, 1, body_and);
    //@ob name=C05.and.2.NE harness=k_c05_and_2_NE props=C05,C04 tier=quick strength=bounded bound="2 operands; outcome pattern NE (E=evaluation error, N=new value, R=raw value, P=does not parse); truthiness of every value symbolic" fns=op::logic::and stubs=4 timeout=300 cutdrop=1 group=medium
    //@ desc="and over 2 operands: result (the deciding operand's value itself, or error/null) and the exact evaluation log (which operands, in which order, each at most once, against the outer data) equal the spec; an operand that is not needed has no effect even if it is invalid; the parser is applied to rule text only"
    lazy_harness!(k_c05_and_2_NE, 2, 1, body_and);
    //@ob name=C05.and.2.ER harness=k_c05_and_2_ER props=C05,C04 tier=off strength=bounded bound="2 operands; outcome pattern ER (E=evaluation error, N=new value, R=raw value, P=does not parse); truthiness of every value symbolic" fns=op::logic::and stubs=4 timeout=300 cutdrop=1 group=heavy
    //@ desc="and over 2 operands: result (the deciding operand's value itself, or error/null) and the exact evaluation log (which operands, in which order, each at most once, against the outer data) equal the spec; an operand that is not needed has no effect even if it is invalid; the parser is applied to rule text only"
    lazy_harness!(k_c05_and_2_ER, 2, 8, body_and);
    //@ob name=C05.and.2.NR harness=k_c05_and_2_NR props=C05,C04 tier=quick strength=bounded bound="2 operands; outcome pattern NR (E=evaluation error, N=new value, R=raw value, P=does not parse); truthiness of every value symbolic" fns=op::logic::and stubs=4 timeout=300 cutdrop=1 group=medium
    //@ desc="and over 2 operands: result (the deciding operand's value itself, or error/null) and the exact evaluation log (which operands, in which order, each at most once, against the outer data) equal the spec; an operand that is not needed has no effect even if it is invalid; the parser is applied to rule text only"
    lazy_harness!(k_c05_and_2_NR, 2, 9, body_and);
    //@ob name=C05.and.2.NP harness=k_c05_and_2_NP props=C05,C04 tier=off strength=bounded bound="2 operands; outcome pattern NP (E=evaluation error, N=new value, R=raw value, P=does not parse); truthiness of every value symbolic" fns=op::logic::and stubs=4 timeout=300 cutdrop=1 group=medium
    //@ desc="and over 2 operands: result (the deciding operand's value itself, or error/null) and the exact evaluation log (which operands, in which order, each at most once, against the outer data) equal the spec; an operand that is not needed has no effect even if it is invalid; the parser is applied to rule text only"
    lazy_harness!(k_c05_and_2_NP, 2, 13, body_and);
    //@ob name=C05.and.3.NRE harness=k_c05_and_3_NRE props=C05,C04 tier=thorough strength=bounded bound="3 operands; outcome pattern NRE (E=evaluation error, N=new value, R=raw value, P=does not parse); truthiness of every value symbolic" fns=op::logic::and stubs=4 timeout=300 cutdrop=1 group=medium
    //@ desc="and over 3 operands: result (the deciding operand's value itself, or error/null) and the exact evaluation log (which operands, in which order, each at most once, against the outer data) equal the spec; an operand that is not needed has no effect even if it is invalid; the parser is applied to rule text only"
    lazy_harness!(k_c05_and_3_NRE, 3, 9, body_and);
    //@ob name=C05.and.3.NEN harness=k_c05_and_3_NEN props=C05,C04 tier=off strength=bounded bound="3 operands; outcome pattern NEN (E=evaluation error, N=new value, R=raw value, P=does not parse); truthiness of every value symbolic" fns=op::logic::and stubs=4 timeout=300 cutdrop=1 group=heavy
    //@ desc="and over 3 operands: result (the deciding operand's value itself, or error/null) and the exact evaluation log (which operands, in which order, each at most once, against the outer data) equal the spec; an operand that is not needed has no effect even if it is invalid; the parser is applied to rule text only"
    lazy_harness!(k_c05_and_3_NEN, 3, 17, body_and);
    //@ob name=C05.and.3.ERN harness=k_c05_and_3_ERN props=C05,C04 tier=off strength=bounded bound="3 operands; outcome pattern ERN (E=evaluation error, N=new value, R=raw value, P=does not parse); truthiness of every value symbolic" fns=op::logic::and stubs=4 timeout=300 cutdrop=1 group=heavy
    //@ desc="and over 3 operands: result (the deciding operand's value itself, or error/null) and the exact evaluation log (which operands, in which order, each at most once, against the outer data) equal the spec; an operand that is not needed has no effect even if it is invalid; the parser is applied to rule text only"
    lazy_harness!(k_c05_and_3_ERN, 3, 24, body_and);
    //@ob name=C05.and.3.NRN harness=k_c05_and_3_NRN props=C05,C04 tier=quick strength=bounded bound="3 operands; outcome pattern NRN (E=evaluation error, N=new value, R=raw value, P=does not parse); truthiness of every value symbolic" fns=op::logic::and stubs=4 timeout=300 cutdrop=1 group=medium
    //@ desc="and over 3 operands: result (the deciding operand's value itself, or error/null) and the exact evaluation log (which operands, in which order, each at most once, against the outer data) equal the spec; an operand that is not needed has no effect even if it is invalid; the parser is applied to rule text only"
    lazy_harness!(k_c05_and_3_NRN, 3, 25, body_and);
    //@ob name=C05.and.3.NNP harness=k_c05_and_3_NNP props=C05,C04 tier=off strength=bounded bound="3 operands; outcome pattern NNP (E=evaluation error, N=new value, R=raw value, P=does not parse); truthiness of every value symbolic" fns=op::logic::and stubs=4 timeout=300 cutdrop=1 group=medium
    //@ desc="and over 3 operands: result (the deciding operand's value itself, or error/null) and the exact evaluation log (which operands, in which order, each at most once, against the outer data) equal the spec; an operand that is not needed has no effect even if it is invalid; the parser is applied to rule text only"
    lazy_harness!(k_c05_and_3_NNP, 3, 53, body_and);
    //@ob name=C05.and.4.NRNE harness=k_c05_and_4_NRNE props=C05,C04 tier=thorough strength=bounded bound="4 operands; outcome pattern NRNE (E=evaluation error, N=new value, R=raw value, P=does not parse); truthiness of every value symbolic" fns=op::logic::and stubs=4 timeout=300 cutdrop=1 group=medium
    //@ desc="and over 4 operands: result (the deciding operand's value itself, or error/null) and the exact evaluation log (which operands, in which order, each at most once, against the outer data) equal the spec; an operand that is not needed has no effect even if it is invalid; the parser is applied to rule text only"
    lazy_harness!(k_c05_and_4_NRNE, 4, 25, body_and);
    //@ob name=C05.and.4.NRER harness=k_c05_and_4_NRER props=C05,C04 tier=off strength=bounded bound="4 operands; outcome pattern NRER (E=evaluation error, N=new value, R=raw value, P=does not parse); truthiness of every value symbolic" fns=op::logic::and stubs=4 timeout=300 cutdrop=1 group=heavy
    //@ desc="and over 4 operands: result (the deciding operand's value itself, or error/null) and the exact evaluation log (which operands, in which order, each at most once, against the outer data) equal the spec; an operand that is not needed has no effect even if it is invalid; the parser is applied to rule text only"
    lazy_harness!(k_c05_and_4_NRER, 4, 137, body_and);
    //@ob name=C05.and.4.NENR harness=k_c05_and_4_NENR props=C05,C04 tier=off strength=bounded bound="4 operands; outcome pattern NENR (E=evaluation error, N=new value, R=raw value, P=does not parse); truthiness of every value symbolic" fns=op::logic::and stubs=4 timeout=300 cutdrop=1 group=heavy
    //@ desc="and over 4 operands: result (the deciding operand's value itself, or error/null) and the exact evaluation log (which operands, in which order, each at most once, against the outer data) equal the spec; an operand that is not needed has no effect even if it is invalid; the parser is applied to rule text only"
    lazy_harness!(k_c05_and_4_NENR, 4, 145, body_and);
    //@ob name=C05.and.4.ERNR harness=k_c05_and_4_ERNR props=C05,C04 tier=off strength=bounded bound="4 operands; outcome pattern ERNR (E=evaluation error, N=new value, R=raw value, P=does not parse); truthiness of every value symbolic" fns=op::logic::and stubs=4 timeout=300 cutdrop=1 group=heavy
    //@ desc="and over 4 operands: result (the deciding operand's value itself, or error/null) and the exact evaluation log (which operands, in which order, each at most once, against the outer data) equal the spec; an operand that is not needed has no effect even if it is invalid; the parser is applied to rule text only"
    lazy_harness!(k_c05_and_4_ERNR, 4, 152, body_and);
    //@ob name=C05.and.4.NRNR harness=k_c05_and_4_NRNR props=C05,C04 tier=thorough strength=bounded bound="4 operands; outcome pattern NRNR (E=evaluation error, N=new value, R=raw value, P=does not parse); truthiness of every value symbolic" fns=op::logic::and stubs=4 timeout=300 cutdrop=1 group=medium
    //@ desc="and over 4 operands: result (the deciding operand's value itself, or error/null) and the exact evaluation log (which operands, in which order, each at most once, against the outer data) equal the spec; an operand that is not needed has no effect even if it is invalid; the parser is applied to rule text only"
    lazy_harness!(k_c05_and_4_NRNR, 4, 153, body_and);
    //@ob name=C05.and.5.NRNRE harness=k_c05_and_5_NRNRE props=C05,C04 tier=thorough strength=bounded bound="5 operands; outcome pattern NRNRE (E=evaluation error, N=new value, R=raw value, P=does not parse); truthiness of every value symbolic" fns=op::logic::and stubs=4 timeout=300 cutdrop=1 group=medium
    //@ desc="and over 5 operands: result (the deciding operand's value itself, or error/null) and the exact evaluation log (which operands, in which order, each at most once, against the outer data) equal the spec; an operand that is not needed has no effect even if it is invalid; the parser is applied to rule text only"
    lazy_harness!(k_c05_and_5_NRNRE, 5, 153, body_and);
    //@ob name=C05.and.5.NRNEN harness=k_c05_and_5_NRNEN props=C05,C04 tier=off strength=bounded bound="5 operands; outcome pattern NRNEN (E=evaluation error, N=new value, R=raw value, P=does not parse); truthiness of every value symbolic" fns=op::logic::and stubs=4 timeout=300 cutdrop=1 group=heavy
    //@ desc="and over 5 operands: result (the deciding operand's value itself, or error/null) and the exact evaluation log (which operands, in which order, each at most once, against the outer data) equal the spec; an operand that is not needed has no effect even if it is invalid; the parser is applied to rule text only"
    lazy_harness!(k_c05_and_5_NRNEN, 5, 281, body_and);
    //@ob name=C05.and.5.NRERN harness=k_c05_and_5_NRERN props=C05,C04 tier=off strength=bounded bound="5 operands; outcome pattern NRERN (E=evaluation error, N=new value, R=raw value, P=does not parse); truthiness of every value symbolic" fns=op::logic::and stubs=4 timeout=300 cutdrop=1 group=heavy
    //@ desc="and over 5 operands: result (the deciding operand's value itself, or error/null) and the exact evaluation log (which operands, in which order, each at most once, against the outer data) equal the spec; an operand that is not needed has no effect even if it is invalid; the parser is applied to rule text only"
    lazy_harness!(k_c05_and_5_NRERN, 5, 393, body_and);
    //@ob name=C05.and.5.NENRN harness=k_c05_and_5_NENRN props=C05,C04 tier=off strength=bounded bound="5 operands; outcome pattern NENRN (E=evaluation error, N=new value, R=raw value, P=does not parse); truthiness of every value symbolic" fns=op::logic::and stubs=4 timeout=300 cutdrop=1 group=heavy
    //@ desc="and over 5 operands: result (the deciding operand's value itself, or error/null) and the exact evaluation log (which operands, in which order, each at most once, against the outer data) equal the spec; an operand that is not needed has no effect even if it is invalid; the parser is applied to rule text only"
    lazy_harness!(k_c05_and_5_NENRN, 5, 401, body_and);
    //@ob name=C05.and.5.ERNRN harness=k_c05_and_5_ERNRN props=C05,C04 tier=off strength=bounded bound="5 operands; outcome pattern ERNRN (E=evaluation error, N=new value, R=raw value, P=does not parse); truthiness of every value symbolic" fns=op::logic::and stubs=4 timeout=300 cutdrop=1 group=heavy
    //@ desc="and over 5 operands: result (the deciding operand's value itself, or error/null) and the exact evaluation log (which operands, in which order, each at most once, against the outer data) equal the spec; an operand that is not needed has no effect even if it is invalid; the parser is applied to rule text only"
    lazy_harness!(k_c05_and_5_ERNRN, 5, 408, body_and);
    //@ob name=C05.and.5.NRNRN harness=k_c05_and_5_NRNRN props=C05,C04 tier=thorough strength=bounded bound="5 operands; outcome pattern NRNRN (E=evaluation error, N=new value, R=raw value, P=does not parse); truthiness of every value symbolic" fns=op::logic::and stubs=4 timeout=300 cutdrop=1 group=medium
    //@ desc="and over 5 operands: result (the deciding operand's value itself, or error/null) and the exact evaluation log (which operands, in which order, each at most once, against the outer data) equal the spec; an operand that is not needed has no effect even if it is invalid; the parser is applied to rule text only"
    lazy_harness!(k_c05_and_5_NRNRN, 5, 409, body_and);
    //@ob name=C05.if.0.none harness=k_c05_if_0_none props=C05,C04 tier=quick strength=bounded bound="0 operands; outcome pattern none (E=evaluation error, N=new value, R=raw value, P=does not parse); truthiness of every value symbolic" fns=op::logic::if_ stubs=4 timeout=300 cutdrop=1 group=medium
    //@ desc="if over 0 operands: result (the deciding operand's value itself, or error/null) and the exact evaluation log (which operands, in which order, each at most once, against the outer data) equal the spec; an operand that is not needed has no effect even if it is invalid; the parser is applied to rule text only"
    lazy_harness!(k_c05_if_0_none, 0, 0, body_if);
    //@ob name=C05.if.1.E harness=k_c05_if_1_E props=C05,C04 tier=quick strength=bounded bound="1 operands; outcome pattern E (E=evaluation error, N=new value, R=raw value, P=does not parse); truthiness of every value symbolic" fns=op::logic::if_ stubs=4 timeout=300 cutdrop=1 group=medium
    //@ desc="if over 1 operands: result (the deciding operand's value itself, or error/null) and the exact evaluation log (which operands, in which order, each at most once, against the outer data) equal the spec; an operand that is not needed has no effect even if it is invalid; the parser is applied to rule text only"
    lazy_harness!(k_c05_if_1_E, 1, 0, body_if);
    //@ob name=C05.if.1.N harness=k_c05_if_1_N props=C05,C04 tier=quick strength=bounded bound="1 operands; outcome pattern N (E=evaluation error, N=new value, R=raw value, P=does not parse); truthiness of every value symbolic" fns=op::logic::if_ stubs=4 timeout=300 cutdrop=1 group=medium
    //@ desc="if over 1 operands: result (the deciding operand's value itself, or error/null) and the exact evaluation log (which operands, in which order, each at most once, against the outer data) equal the spec; an operand that is not needed has no effect even if it is invalid; the parser is applied to rule text only"
    lazy_harness!(k_c05_if_1_N, 1, 1, body_if);
    //@ob name=C05.if.2.NE harness=k_c05_if_2_NE props=C05,C04 tier=quick strength=bounded bound="2 operands; outcome pattern NE (E=evaluation error, N=new value, R=raw value, P=does not parse); truthiness of every value symbolic" fns=op::logic::if_ stubs=4 timeout=300 cutdrop=1 group=medium
    //@ desc="if over 2 operands: result (the deciding operand's value itself, or error/null) and the exact evaluation log (which operands, in which order, each at most once, against the outer data) equal the spec; an operand that is not needed has no effect even if it is invalid; the parser is applied to rule text only"
    lazy_harness!(k_c05_if_2_NE, 2, 1, body_if);
    //@ob name=C05.if.2.ER harness=k_c05_if_2_ER props=C05,C04 tier=off strength=bounded bound="2 operands; outcome pattern ER (E=evaluation error, N=new value, R=raw value, P=does not parse); truthiness of every value symbolic" fns=op::logic::if_ stubs=4 timeout=300 cutdrop=1 group=heavy
    //@ desc="if over 2 operands: result (the deciding operand's value itself, or error/null) and the exact evaluation log (which operands, in which order, each at most once, against the outer data) equal the spec; an operand that is not needed has no effect even if it is invalid; the parser is applied to rule text only"
    lazy_harness!(k_c05_if_2_ER, 2, 8, body_if);
    //@ob name=C05.if.2.NR harness=k_c05_if_2_NR props=C05,C04 tier=quick strength=bounded bound="2 operands; outcome pattern NR (E=evaluation error, N=new value, R=raw value, P=does not parse); truthiness of every value symbolic" fns=op::logic::if_ stubs=4 timeout=300 cutdrop=1 group=medium
    //@ desc="if over 2 operands: result (the deciding operand's value itself, or error/null) and the exact evaluation log (which operands, in which order, each at most once, against the outer data) equal the spec; an operand that is not needed has no effect even if it is invalid; the parser is applied to rule text only"
    lazy_harness!(k_c05_if_2_NR, 2, 9, body_if);
    //@ob name=C05.if.2.NP harness=k_c05_if_2_NP props=C05,C04 tier=off strength=bounded bound="2 operands; outcome pattern NP (E=evaluation error, N=new value, R=raw value, P=does not parse); truthiness of every value symbolic" fns=op::logic::if_ stubs=4 timeout=300 cutdrop=1 group=medium
    //@ desc="if over 2 operands: result (the deciding operand's value itself, or error/null) and the exact evaluation log (which operands, in which order, each at most once, against the outer data) equal the spec; an operand that is not needed has no effect even if it is invalid; the parser is applied to rule text only"
    lazy_harness!(k_c05_if_2_NP, 2, 13, body_if);
    //@ob name=C05.if.3.NRE harness=k_c05_if_3_NRE props=C05,C04 tier=thorough strength=bounded bound="3 operands; outcome pattern NRE (E=evaluation error, N=new value, R=raw value, P=does not parse); truthiness of every value symbolic" fns=op::logic::if_ stubs=4 timeout=300 cutdrop=1 group=medium
    //@ desc="if over 3 operands: result (the deciding operand's value itself, or error/null) and the exact evaluation log (which operands, in which order, each at most once, against the outer data) equal the spec; an operand that is not needed has no effect even if it is invalid; the parser is applied to rule text only"
    lazy_harness!(k_c05_if_3_NRE, 3, 9, body_if);
    //@ob name=C05.if.3.NEN harness=k_c05_if_3_NEN props=C05,C04 tier=off strength=bounded bound="3 operands; outcome pattern NEN (E=evaluation error, N=new value, R=raw value, P=does not parse); truthiness of every value symbolic" fns=op::logic::if_ stubs=4 timeout=300 cutdrop=1 group=heavy
    //@ desc="if over 3 operands: result (the deciding operand's value itself, or error/null) and the exact evaluation log (which operands, in which order, each at most once, against the outer data) equal the spec; an operand that is not needed has no effect even if it is invalid; the parser is applied to rule text only"
    lazy_harness!(k_c05_if_3_NEN, 3, 17, body_if);
    //@ob name=C05.if.3.ERN harness=k_c05_if_3_ERN props=C05,C04 tier=off strength=bounded bound="3 operands; outcome pattern ERN (E=evaluation error, N=new value, R=raw value, P=does not parse); truthiness of every value symbolic" fns=op::logic::if_ stubs=4 timeout=300 cutdrop=1 group=heavy
    //@ desc="if over 3 operands: result (the deciding operand's value itself, or error/null) and the exact evaluation log (which operands, in which order, each at most once, against the outer data) equal the spec; an operand that is not needed has no effect even if it is invalid; the parser is applied to rule text only"
    lazy_harness!(k_c05_if_3_ERN, 3, 24, body_if);
    //@ob name=C05.if.3.NRN harness=k_c05_if_3_NRN props=C05,C04 tier=quick strength=bounded bound="3 operands; outcome pattern NRN (E=evaluation error, N=new value, R=raw value, P=does not parse); truthiness of every value symbolic" fns=op::logic::if_ stubs=4 timeout=300 cutdrop=1 group=medium
    //@ desc="if over 3 operands: result (the deciding operand's value itself, or error/null) and the exact evaluation log (which operands, in which order, each at most once, against the outer data) equal the spec; an operand that is not needed has no effect even if it is invalid; the parser is applied to rule text only"
    lazy_harness!(k_c05_if_3_NRN, 3, 25, body_if);
    //@ob name=C05.if.3.NNP harness=k_c05_if_3_NNP props=C05,C04 tier=off strength=bounded bound="3 operands; outcome pattern NNP (E=evaluation error, N=new value, R=raw value, P=does not parse); truthiness of every value symbolic" fns=op::logic::if_ stubs=4 timeout=300 cutdrop=1 group=medium
    //@ desc="if over 3 operands: result (the deciding operand's value itself, or error/null) and the exact evaluation log (which operands, in which order, each at most once, against the outer data) equal the spec; an operand that is not needed has no effect even if it is invalid; the parser is applied to rule text only"
    lazy_harness!(k_c05_if_3_NNP, 3, 53, body_if);
    //@ob name=C05.if.4.NRNE harness=k_c05_if_4_NRNE props=C05,C04 tier=thorough strength=bounded bound="4 operands; outcome pattern NRNE (E=evaluation error, N=new value, R=raw value, P=does not parse); truthiness of every value symbolic" fns=op::logic::if_ stubs=4 timeout=300 cutdrop=1 group=medium
    //@ desc="if over 4 operands: result (the deciding operand's value itself, or error/null) and the exact evaluation log (which operands, in which order, each at most once, against the outer data) equal the spec; an operand that is not needed has no effect even if it is invalid; the parser is applied to rule text only"
    lazy_harness!(k_c05_if_4_NRNE, 4, 25, body_if);
    //@ob name=C05.if.4.NRER harness=k_c05_if_4_NRER props=C05,C04 tier=off strength=bounded bound="4 operands; outcome pattern NRER (E=evaluation error, N=new value, R=raw value, P=does not parse); truthiness of every value symbolic" fns=op::logic::if_ stubs=4 timeout=300 cutdrop=1 group=heavy
    //@ desc="if over 4 operands: result (the deciding operand's value itself, or error/null) and the exact evaluation log (which operands, in which order, each at most once, against the outer data) equal the spec; an operand that is not needed has no effect even if it is invalid; the parser is applied to rule text only"
    lazy_harness!(k_c05_if_4_NRER, 4, 137, body_if);
    //@ob name=C05.if.4.NENR harness=k_c05_if_4_NENR props=C05,C04 tier=off strength=bounded bound="4 operands; outcome pattern NENR (E=evaluation error, N=new value, R=raw value, P=does not parse); truthiness of every value symbolic" fns=op::logic::if_ stubs=4 timeout=300 cutdrop=1 group=heavy
    //@ desc="if over 4 operands: result (the deciding operand's value itself, or error/null) and the exact evaluation log (which operands, in which order, each at most once, against the outer data) equal the spec; an operand that is not needed has no effect even if it is invalid; the parser is applied to rule text only"
    lazy_harness!(k_c05_if_4_NENR, 4, 145, body_if);
    //@ob name=C05.if.4.ERNR harness=k_c05_if_4_ERNR props=C05,C04 tier=off strength=bounded bound="4 operands; outcome pattern ERNR (E=evaluation error, N=new value, R=raw value, P=does not parse); truthiness of every value symbolic" fns=op::logic::if_ stubs=4 timeout=300 cutdrop=1 group=heavy
    //@ desc="if over 4 operands: result (the deciding operand's value itself, or error/null) and the exact evaluation log (which operands, in which order, each at most once, against the outer data) equal the spec; an operand that is not needed has no effect even if it is invalid; the parser is applied to rule text only"
    lazy_harness!(k_c05_if_4_ERNR, 4, 152, body_if);
    //@ob name=C05.if.4.NRNR harness=k_c05_if_4_NRNR props=C05,C04 tier=thorough strength=bounded bound="4 operands; outcome pattern NRNR (E=evaluation error, N=new value, R=raw value, P=does not parse); truthiness of every value symbolic" fns=op::logic::if_ stubs=4 timeout=300 cutdrop=1 group=medium
    //@ desc="if over 4 operands: result (the deciding operand's value itself, or error/null) and the exact evaluation log (which operands, in which order, each at most once, against the outer data) equal the spec; an operand that is not needed has no effect even if it is invalid; the parser is applied to rule text only"
    lazy_harness!(k_c05_if_4_NRNR, 4, 153, body_if);
    //@ob name=C05.if.5.NRNRE harness=k_c05_if_5_NRNRE props=C05,C04 tier=thorough strength=bounded bound="5 operands; outcome pattern NRNRE (E=evaluation error, N=new value, R=raw value, P=does not parse); truthiness of every value symbolic" fns=op::logic::if_ stubs=4 timeout=300 cutdrop=1 group=medium
    //@ desc="if over 5 operands: result (the deciding operand's value itself, or error/null) and the exact evaluation log (which operands, in which order, each at most once, against the outer data) equal the spec; an operand that is not needed has no effect even if it is invalid; the parser is applied to rule text only"
    lazy_harness!(k_c05_if_5_NRNRE, 5, 153, body_if);
    //@ob name=C05.if.5.NRNEN harness=k_c05_if_5_NRNEN props=C05,C04 tier=off strength=bounded bound="5 operands; outcome pattern NRNEN (E=evaluation error, N=new value, R=raw value, P=does not parse); truthiness of every value symbolic" fns=op::logic::if_ stubs=4 timeout=300 cutdrop=1 group=heavy
    //@ desc="if over 5 operands: result (the deciding operand's value itself, or error/null) and the exact evaluation log (which operands, in which order, each at most once, against the outer data) equal the spec; an operand that is not needed has no effect even if it is invalid; the parser is applied to rule text only"
    lazy_harness!(k_c05_if_5_NRNEN, 5, 281, body_if);
    //@ob name=C05.if.5.NRERN harness=k_c05_if_5_NRERN props=C05,C04 tier=off strength=bounded bound="5 operands; outcome pattern NRERN (E=evaluation error, N=new value, R=raw value, P=does not parse); truthiness of every value symbolic" fns=op::logic::if_ stubs=4 timeout=300 cutdrop=1 group=heavy
    //@ desc="if over 5 operands: result (the deciding operand's value itself, or error/null) and the exact evaluation log (which operands, in which order, each at most once, against the outer data) equal the spec; an operand that is not needed has no effect even if it is invalid; the parser is applied to rule text only"
    lazy_harness!(k_c05_if_5_NRERN, 5, 393, body_if);
    //@ob name=C05.if.5.NENRN harness=k_c05_if_5_NENRN props=C05,C04 tier=off strength=bounded bound="5 operands; outcome pattern NENRN (E=evaluation error, N=new value, R=raw value, P=does not parse); truthiness of every value symbolic" fns=op::logic::if_ stubs=4 timeout=300 cutdrop=1 group=heavy
    //@ desc="if over 5 operands: result (the deciding operand's value itself, or error/null) and the exact evaluation log (which operands, in which order, each at most once, against the outer data) equal the spec; an operand that is not needed has no effect even if it is invalid; the parser is applied to rule text only"
    lazy_harness!(k_c05_if_5_NENRN, 5, 401, body_if);
    //@ob name=C05.if.5.ERNRN harness=k_c05_if_5_ERNRN props=C05,C04 tier=off strength=bounded bound="5 operands; outcome pattern ERNRN (E=evaluation error, N=new value, R=raw value, P=does not parse); truthiness of every value symbolic" fns=op::logic::if_ stubs=4 timeout=300 cutdrop=1 group=heavy
    //@ desc="if over 5 operands: result (the deciding operand's value itself, or error/null) and the exact evaluation log (which operands, in which order, each at most once, against the outer data) equal the spec; an operand that is not needed has no effect even if it is invalid; the parser is applied to rule text only"
    lazy_harness!(k_c05_if_5_ERNRN, 5, 408, body_if);
    //@ob name=C05.if.5.NRNRN harness=k_c05_if_5_NRNRN props=C05,C04 tier=thorough strength=bounded bound="5 operands; outcome pattern NRNRN (E=evaluation error, N=new value, R=raw value, P=does not parse); truthiness of every value symbolic" fns=op::logic::if_ stubs=4 timeout=300 cutdrop=1 group=medium
    //@ desc="if over 5 operands: result (the deciding operand's value itself, or error/null) and the exact evaluation log (which operands, in which order, each at most once, against the outer data) equal the spec; an operand that is not needed has no effect even if it is invalid; the parser is applied to rule text only"
    lazy_harness!(k_c05_if_5_NRNRN, 5, 409, body_if);
//@END-GENERATED-LAZY
}

// Shared support for the contract / harness modules that /verif appends to the crate's
// source files at check time. Compiled only under cfg(kani) (verification) or
// cfg(verif_replay) (the same harness text run as ordinary Rust on concrete values,
// with NO stub applied, to replay a counterexample against the real code).

#[cfg(verif_replay)]
#[macro_export]
macro_rules! verif_cover {
    ($($t:tt)*) => {{}};
}

#[cfg(any(kani, verif_replay))]
#[allow(dead_code, unused_imports, unused_variables, unused_macros, unused_mut)]
pub(crate) mod verif_support {
    use serde_json::{Map, Number, Value};
    pub use std::mem::ManuallyDrop as MD;

    // ------------------------------------------------------------------ replay shim
    #[cfg(verif_replay)]
    pub mod shim {
        use std::cell::RefCell;
        thread_local! { static VALS: RefCell<(Vec<Vec<u8>>, usize)> = RefCell::new((Vec::new(), 0)); }
        pub fn set_values(v: Vec<Vec<u8>>) {
            VALS.with(|c| *c.borrow_mut() = (v, 0));
        }
        fn next(n: usize) -> Vec<u8> {
            VALS.with(|c| {
                let mut g = c.borrow_mut();
                let i = g.1;
                if i >= g.0.len() {
                    panic!("VERIF_OUT_OF_VALUES");
                }
                g.1 += 1;
                let v = g.0[i].clone();
                if v.len() != n {
                    panic!("VERIF_OUT_OF_VALUES (size mismatch: want {} got {})", n, v.len());
                }
                v
            })
        }
        pub trait Arb: Sized {
            fn arb() -> Self;
        }
        macro_rules! int_arb { ($($t:ty),*) => {$(
            impl Arb for $t { fn arb() -> Self {
                let b = next(std::mem::size_of::<$t>());
                let mut a = [0u8; std::mem::size_of::<$t>()];
                a.copy_from_slice(&b);
                <$t>::from_le_bytes(a)
            } }
        )*} }
        int_arb!(u8, u16, u32, u64, i8, i16, i32, i64, usize, isize);
        impl Arb for bool {
            fn arb() -> bool {
                next(1)[0] & 1 == 1
            }
        }
        impl Arb for f64 {
            fn arb() -> f64 {
                f64::from_bits(u64::arb())
            }
        }
        impl Arb for char {
            fn arb() -> char {
                match std::char::from_u32(u32::arb()) {
                    Some(c) => c,
                    None => panic!("VERIF_ASSUME_FAILED (invalid char)"),
                }
            }
        }
        impl<T: Arb + Copy + Default, const N: usize> Arb for [T; N] {
            fn arb() -> [T; N] {
                let mut a = [T::default(); N];
                let mut i = 0;
                while i < N {
                    a[i] = T::arb();
                    i += 1;
                }
                a
            }
        }
        pub fn any<T: Arb>() -> T {
            T::arb()
        }
        pub fn assume(c: bool) {
            if !c {
                panic!("VERIF_ASSUME_FAILED");
            }
        }
        pub use crate::verif_cover as cover;
    }
    #[cfg(verif_replay)]
    use self::shim as kani;

    // ------------------------------------------------------------------ assumed contracts on dependencies
    /// `std::fmt::format` returns *some* String: message text is never part of a property.
    pub fn fmt_stub(_a: std::fmt::Arguments<'_>) -> String {
        String::new()
    }

    /// `<Value as Clone>::clone`, restricted to what harnesses clone: scalars and strings are
    /// cloned for real, containers are cloned shallowly as an *empty* container of the same kind
    /// (harnesses that use this stub only clone scalars, or containers whose content they never read).
    fn clone_scalar(v: &Value) -> Value {
        match v {
            Value::Null => Value::Null,
            Value::Bool(b) => Value::Bool(*b),
            Value::Number(n) => Value::Number(n.clone()),
            Value::String(s) => Value::String(s.clone()),
            Value::Array(_) => Value::Array(Vec::new()),
            Value::Object(_) => Value::Object(Map::new()),
        }
    }
    pub fn value_clone_shallow(v: &Value) -> Value {
        match v {
            Value::Null => Value::Null,
            Value::Bool(b) => Value::Bool(*b),
            Value::Number(n) => Value::Number(n.clone()),
            Value::String(s) => Value::String(s.clone()),
            Value::Array(a) => {
                // one level, at most 3 elements, straight-line (a loop here is unwound to the harness bound
                // whenever CBMC cannot see the source's tag: measured 18 x 10 iterations, > 300 s)
                let mut out: Vec<Value> = Vec::with_capacity(3);
                assert!(a.len() <= 3, "clone stub: arrays of at most 3 elements");
                if a.len() > 0 {
                    out.push(clone_scalar(&a[0]));
                }
                if a.len() > 1 {
                    out.push(clone_scalar(&a[1]));
                }
                if a.len() > 2 {
                    out.push(clone_scalar(&a[2]));
                }
                Value::Array(out)
            }
            Value::Object(_) => Value::Object(Map::new()),
        }
    }

    /// `<Value as PartialEq>::eq` restricted to what harnesses compare: scalars and strings structurally,
    /// containers never equal (harnesses using this stub only compare scalars/strings).
    pub fn value_eq_shallow(a: &Value, b: &Value) -> bool {
        match (a, b) {
            (Value::Null, Value::Null) => true,
            (Value::Bool(x), Value::Bool(y)) => x == y,
            (Value::Number(x), Value::Number(y)) => x == y,
            (Value::String(x), Value::String(y)) => x == y,
            _ => false,
        }
    }

    // ------------------------------------------------------------------ symbolic JSON numbers
    /// Any JSON number: every i64, every u64, every finite f64 (serde_json's three representations).
    pub fn any_number() -> Number {
        let tag: u8 = kani::any();
        kani::assume(tag < 3);
        any_number_of(tag)
    }
    pub fn any_number_of(tag: u8) -> Number {
        match tag {
            0 => Number::from(kani::any::<i64>()),
            1 => Number::from(kani::any::<u64>()),
            _ => {
                let f: f64 = kani::any();
                kani::assume(f.is_finite());
                Number::from_f64(f).unwrap()
            }
        }
    }
    /// Mathematical value of a JSON number as the double JavaScript would see.
    pub fn num_f64(n: &Number) -> f64 {
        n.as_f64().unwrap()
    }

    /// A String of exactly N symbolic bytes, all ASCII (so valid UTF-8 by construction).
    pub fn any_ascii_string<const N: usize>() -> String {
        let bytes: [u8; N] = kani::any();
        // one fixed allocation filled with concrete 'a's, then overwritten byte by byte with the symbolic
        // ASCII bytes (String::push of a symbolic char is two orders of magnitude more expensive in CBMC)
        let mut s = String::with_capacity(N + 1);
        let mut j = 0;
        while j < N {
            s.push('a');
            j += 1;
        }
        let mut i = 0;
        while i < N {
            kani::assume(bytes[i] < 128);
            unsafe { s.as_bytes_mut()[i] = bytes[i] };
            i += 1;
        }
        s
    }

    // ------------------------------------------------------------------ evaluator by contract (ghost state)
    // The contract of the parse/evaluate pair, as seen by an operator function (C04, C05, C13, C14):
    //   * `Parsed::from_value(v)` may only be applied to RULE TEXT: v must be one of the registered nodes;
    //   * `parsed.evaluate(d)` evaluates that node once against `d` and yields its planned outcome.
    // The stubs (in value.rs, they need Raw's private field) record every call; harnesses compare the
    // record with the spec. Outcome i: Err, or Ok(New(Number(u_i))) / Ok(Raw(&Number(u_i))) with u_i an
    // independent symbolic u64 (truthy iff != 0), or a fixed container value.
    pub mod ev {
        use serde_json::Value;
        pub const MAXN: usize = 8;
        pub static mut NODES: [*const Value; MAXN] = [std::ptr::null(); MAXN];
        pub static mut N_NODES: usize = 0;
        /// 0 = Err, 1 = Ok(Evaluated::New(value)), 2 = Ok(Evaluated::Raw(&value))
        pub static mut OUT_CLASS: [u8; MAXN] = [0; MAXN];
        pub static mut OUT_VAL: [*const Value; MAXN] = [std::ptr::null(); MAXN];
        /// when set, the outcome value is the number OUT_U64[i], built fresh by the stub (constant tag for CBMC)
        pub static mut OUT_IS_NUM: [bool; MAXN] = [false; MAXN];
        pub static mut OUT_U64: [u64; MAXN] = [0; MAXN];
        pub static mut MULTI_IS_NUM: [bool; 6] = [false; 6];
        pub static mut MULTI_U64: [u64; 6] = [0; 6];
        pub static mut PARSE_COUNT: [u8; MAXN] = [0; MAXN];
        pub static mut LOG_NODE: [usize; 16] = [0; 16];
        pub static mut LOG_DATA: [*const Value; 16] = [std::ptr::null(); 16];
        pub static mut LOG_N: usize = 0;
        pub static mut FOREIGN_PARSE: bool = false;
        /// a node evaluated once per element (predicate / mapped expression): outcome per call
        pub static mut MULTI_NODE: usize = usize::MAX;
        pub static mut MULTI_CLASS: [u8; 6] = [0; 6];
        pub static mut MULTI_VAL: [*const Value; 6] = [std::ptr::null(); 6];
        pub static mut MULTI_CALLS: usize = 0;
        /// fingerprint of the `data` argument of every logged evaluation: u64 payload if it is a number
        /// (u64::MAX - 1 for null, u64::MAX - 2 for anything else)
        pub static mut LOG_DATA_FP: [u64; 16] = [0; 16];
        pub fn fingerprint(v: &Value) -> u64 {
            match v {
                // (0.0 and -0.0 are the falsy spellings of outcome payload 0: same fingerprint as the integer 0)
                Value::Number(n) => n.as_u64().unwrap_or(if n.as_f64() == Some(0.0) { 0 } else { u64::MAX - 3 }),
                Value::Null => u64::MAX - 1,
                // strings: a tag plus the first four bytes (enough to tell one-character strings apart)
                Value::String(s) => {
                    let b = s.as_bytes();
                    let mut x: u64 = 0x5300_0000_0000_0000 | ((b.len() as u64) << 40);
                    if b.len() > 0 { x |= b[0] as u64; }
                    if b.len() > 1 { x |= (b[1] as u64) << 8; }
                    if b.len() > 2 { x |= (b[2] as u64) << 16; }
                    if b.len() > 3 { x |= (b[3] as u64) << 24; }
                    x
                }
                _ => u64::MAX - 2,
            }
        }
        pub fn set_multi(node: usize) {
            unsafe { MULTI_NODE = node };
        }
        pub fn set_multi_outcome(call: usize, class: u8, out: *const Value) {
            unsafe {
                MULTI_CLASS[call] = class;
                MULTI_VAL[call] = out;
            }
        }

        pub fn register(v: &Value, class: u8, out: *const Value) -> usize {
            unsafe {
                let i = N_NODES;
                NODES[i] = v as *const Value;
                OUT_CLASS[i] = class;
                OUT_VAL[i] = out;
                N_NODES = i + 1;
                i
            }
        }
        /// outcome number for node `i` with planned payload `u`: truthy payloads are the integer u; the falsy payload 0
        /// is spelled differently per operand (0, 0.0, -0.0 - all falsy, all distinguishable), so that "the first falsy
        /// value" and "the last falsy value" are different results
        pub fn outcome_number(i: usize, u: u64) -> serde_json::Number {
            if u != 0 {
                serde_json::Number::from(u)
            } else {
                match i % 3 {
                    0 => serde_json::Number::from(0u64),
                    1 => serde_json::Number::from_f64(0.0).unwrap(),
                    _ => serde_json::Number::from_f64(-0.0).unwrap(),
                }
            }
        }
        /// is `n` exactly the outcome number of node `i` with payload `u`?
        pub fn is_outcome_number(n: &serde_json::Number, i: usize, u: u64) -> bool {
            if u != 0 {
                n.as_u64() == Some(u)
            } else {
                match i % 3 {
                    0 => n.is_u64() && n.as_u64() == Some(0),
                    1 => n.is_f64() && n.as_f64().map(|x| x == 0.0 && x.is_sign_positive()).unwrap_or(false),
                    _ => n.is_f64() && n.as_f64().map(|x| x == 0.0 && x.is_sign_negative()).unwrap_or(false),
                }
            }
        }
        pub fn register_num(v: &Value, class: u8, out: *const Value, u: u64) -> usize {
            let i = register(v, class, out);
            unsafe {
                OUT_IS_NUM[i] = true;
                OUT_U64[i] = u;
            }
            i
        }
        pub fn set_multi_outcome_num(call: usize, class: u8, out: *const Value, u: u64) {
            set_multi_outcome(call, class, out);
            unsafe {
                MULTI_IS_NUM[call] = true;
                MULTI_U64[call] = u;
            }
        }
        pub fn node_index(v: *const Value) -> Option<usize> {
            let mut i = 0;
            while i < unsafe { N_NODES } {
                if unsafe { NODES[i] } == v {
                    return Some(i);
                }
                i += 1;
            }
            None
        }
        pub fn log_len() -> usize {
            unsafe { LOG_N }
        }
        pub fn log_at(k: usize) -> (usize, *const Value) {
            unsafe { (LOG_NODE[k], LOG_DATA[k]) }
        }
    }

    // ------------------------------------------------------------------ std::str::Chars by contract
    // An ABSTRACT string of CH_L characters whose i-th character is abstract_char(i): 1-, 4-, 2- and 3-byte
    // characters (the second one is outside the BMP, so UTF-8 length, UTF-16 length and character count all differ).
    // Stubbing `<Chars as Iterator>::{next, count, advance_by}` with these makes every std adapter on top of Chars
    // (Skip, Take, Map, collect, ...) run for real on such a string without CBMC decoding UTF-8 from the heap.
    // Assumed contract (trusted): the real Chars of a string with exactly these characters behaves like this.
    pub mod chars_contract {
        pub static mut CH_L: usize = 0;
        pub static mut CH_POS: usize = 0;
        pub static mut CH_COUNT_CALLS: u32 = 0;
        /// when set, the abstract string's characters come from this table instead (set by the harness)
        pub static mut CH_TEXT: [char; 4] = ['\0'; 4];
        pub static mut CH_USE_TEXT: bool = false;
        pub fn abstract_char(i: usize) -> char {
            if unsafe { CH_USE_TEXT } {
                return unsafe { CH_TEXT[i] };
            }
            match i {
                0 => 'a',
                1 => '\u{1F600}',
                2 => '\u{e9}',
                _ => '\u{20ac}',
            }
        }
        /// the real text of the abstract string with `l` characters (what a body that looks at bytes sees)
        pub fn real_text(l: usize) -> &'static str {
            match l {
                0 => "",
                1 => "a",
                2 => "a\u{1F600}",
                3 => "a\u{1F600}\u{e9}",
                _ => "a\u{1F600}\u{e9}\u{20ac}",
            }
        }
        pub fn reset(l: usize) {
            unsafe {
                CH_L = l;
                CH_POS = 0;
            }
        }
        /// carrier: a method of an `impl<'a>` has the same early-bound lifetime parameter as
        /// `impl<'a> Iterator for Chars<'a>`, which Kani requires of a stub
        pub struct CharsContract<'a>(std::marker::PhantomData<&'a ()>);
        impl<'a> CharsContract<'a> {
            pub fn next(_c: &mut std::str::Chars<'a>) -> Option<char> {
                unsafe {
                    if CH_POS < CH_L {
                        CH_POS += 1;
                        Some(abstract_char(CH_POS - 1))
                    } else {
                        None
                    }
                }
            }
            pub fn advance_by(_c: &mut std::str::Chars<'a>, n: usize) -> Result<(), std::num::NonZero<usize>> {
                unsafe {
                    let left = CH_L - CH_POS;
                    if n <= left {
                        CH_POS += n;
                        Ok(())
                    } else {
                        CH_POS = CH_L;
                        Err(std::num::NonZero::new(n - left).unwrap())
                    }
                }
            }
            pub fn count(_c: std::str::Chars<'a>) -> usize {
                unsafe {
                    CH_COUNT_CALLS += 1;
                    CH_L - CH_POS
                }
            }
        }
    }

    /// Kind tags used by the kind-pair harnesses.
    pub const K_NULL: u8 = 0;
    pub const K_BOOL: u8 = 1;
    pub const K_NUM: u8 = 2;
    pub const K_STR: u8 = 3;
    pub const K_ARR: u8 = 4;
    pub const K_OBJ: u8 = 5;

    pub fn kind_of(v: &Value) -> u8 {
        match v {
            Value::Null => K_NULL,
            Value::Bool(_) => K_BOOL,
            Value::Number(_) => K_NUM,
            Value::String(_) => K_STR,
            Value::Array(_) => K_ARR,
            Value::Object(_) => K_OBJ,
        }
    }
}

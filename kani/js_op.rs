#[cfg(any(kani, verif_replay))]
#[allow(dead_code, unused_imports, unused_variables, unused_macros, unused_mut, static_mut_refs)]
pub(crate) mod verif_js_op {
    use super::*;
    #[cfg(verif_replay)]
    use crate::verif_support::shim as kani;
    use crate::verif_support::*;

    // =====================================================================================
    // Abstract view of an operand ("SV"): what ECMA-262 sees of a JSON value.
    //   * numbers: their double;  * strings: a label (1 symbolic byte out of {a,b,c}) whose
    //   ToNumber is an *arbitrary* planned Option<f64> (None = NaN);  * containers: the label of
    //   their string form (arbitrary, planned).  str_to_number / to_string are replaced by
    //   contract stubs that answer from the plan; their own contracts are separate obligations.
    // =====================================================================================
    #[derive(Clone, Copy)]
    pub(crate) enum SV {
        Null,
        Bool(bool),
        Num(f64),
        Str(u8),
        Obj(u8), // array or object: label of its string form
    }

    pub(crate) const LABELS: [u8; 4] = [b'a', b'b', b'c', b'#'];
    pub(crate) static mut S2N_PLAN: [Option<f64>; 4] = [None; 4];
    pub(crate) static mut TS_PTR: [*const Value; 2] = [std::ptr::null(); 2];
    pub(crate) static mut TS_LABEL: [u8; 2] = [b'a'; 2];

    fn label_idx(l: u8) -> usize {
        match l {
            b'a' => 0,
            b'b' => 1,
            b'c' => 2,
            _ => 3,
        }
    }
    fn label_string(l: u8) -> String {
        // one fixed allocation whose single byte is the (possibly symbolic) ASCII label
        let mut s = String::from("a");
        unsafe { s.as_bytes_mut()[0] = l };
        s
    }
    pub(crate) fn tonum(l: u8) -> f64 {
        match unsafe { S2N_PLAN[label_idx(l)] } {
            Some(x) => x,
            None => f64::NAN,
        }
    }

    /// contract stub for `str_to_number`: ToNumber of a labelled string, from the plan.
    pub(crate) fn s2n_stub<S: AsRef<str>>(string: S) -> Option<f64> {
        let s = string.as_ref();
        let b = s.as_bytes();
        assert!(b.len() == 1, "harness strings are 1-byte labels");
        unsafe { S2N_PLAN[label_idx(b[0])] }
    }

    /// contract stub for `to_string`: strings pass through, null/bool as in the statement, a number's
    /// text and a container's joined form are labels (arbitrary strings with arbitrary ToNumber).
    pub(crate) fn to_string_stub(value: &Value) -> String {
        match value {
            Value::Null => String::from("null"),
            Value::Bool(b) => {
                if *b {
                    String::from("true")
                } else {
                    String::from("false")
                }
            }
            Value::String(s) => s.clone(),
            Value::Number(_) => label_string(b'#'),
            _ => {
                let p = value as *const Value;
                let l = unsafe {
                    if p == TS_PTR[0] {
                        TS_LABEL[0]
                    } else {
                        assert!(p == TS_PTR[1], "to_string called on a container that is not an operand");
                        TS_LABEL[1]
                    }
                };
                label_string(l)
            }
        }
    }

    fn any_label() -> u8 {
        let l: u8 = kani::any();
        kani::assume(l == b'a' || l == b'b' || l == b'c');
        l
    }

    fn stringy(k: u8) -> bool {
        k == K_STR || k == K_ARR || k == K_OBJ
    }
    /// The concrete string standing for label `l`. Under Kani: the 1-byte label itself (its ToNumber comes
    /// from the plan through the stub). Under replay (no stubs): a real string whose real ToNumber is the
    /// planned one, or - when both operands are string-like and no conversion can happen - the label.
    #[cfg(kani)]
    fn realize(l: u8, _both_stringy: bool) -> String {
        label_string(l)
    }
    #[cfg(verif_replay)]
    fn realize(l: u8, both_stringy: bool) -> String {
        if both_stringy {
            return label_string(l);
        }
        match unsafe { S2N_PLAN[label_idx(l)] } {
            None => label_string(l),
            Some(v) if v.is_nan() => label_string(l),
            Some(v) if v == f64::INFINITY => String::from("Infinity"),
            Some(v) if v == f64::NEG_INFINITY => String::from("-Infinity"),
            Some(v) => format!("{:?}", v),
        }
    }

    /// Build operand `slot` (0 or 1) of kind `k` (the other operand has kind `other`);
    /// returns the real Value and its abstract view.
    pub(crate) fn mk(k: u8, slot: usize, other: u8) -> (MD<Value>, SV) {
        let both = stringy(k) && stringy(other);
        match k {
            K_NULL => (MD::new(Value::Null), SV::Null),
            K_BOOL => {
                let b: bool = kani::any();
                (MD::new(Value::Bool(b)), SV::Bool(b))
            }
            K_NUM => {
                let n = any_number();
                let x = n.as_f64().unwrap();
                (MD::new(Value::Number(n)), SV::Num(x))
            }
            K_STR => {
                let l = any_label();
                (MD::new(Value::String(realize(l, both))), SV::Str(l))
            }
            K_ARR => {
                let l = any_label();
                unsafe { TS_LABEL[slot] = l };
                #[cfg(kani)]
                let v = Value::Array(Vec::new());
                // replay: a real array whose real string form is the realised label
                #[cfg(verif_replay)]
                let v = Value::Array(vec![Value::String(realize(l, both))]);
                (MD::new(v), SV::Obj(l))
            }
            _ => {
                let l = any_label();
                unsafe { TS_LABEL[slot] = l };
                // replay: a real object's string form is "[object Object]" (ToNumber NaN): only
                // counterexamples consistent with that can be replayed.
                #[cfg(verif_replay)]
                kani::assume(!both && unsafe { S2N_PLAN[label_idx(l)] }.map(|v| v.is_nan()).unwrap_or(true));
                (MD::new(Value::Object(serde_json::Map::new())), SV::Obj(l))
            }
        }
    }
    pub(crate) fn show(what: &str, a: &Value, b: &Value) {
        #[cfg(verif_replay)]
        eprintln!("REPLAY-INPUT: {}: a = {}   b = {}", what, a, b);
    }
    pub(crate) fn register(a: &Value, b: &Value) {
        unsafe {
            TS_PTR[0] = a as *const Value;
            TS_PTR[1] = b as *const Value;
        }
    }
    pub(crate) fn plan_conversions() {
        let mut i = 0;
        while i < 4 {
            let has: bool = kani::any();
            let v: f64 = kani::any();
            unsafe { S2N_PLAN[i] = if has { Some(v) } else { None } };
            i += 1;
        }
    }

    // ------------------------------------------------------------------ the specs (from the statements)
    /// C07: ECMA-262 7.2.14 on JSON values, every container a distinct instance.
    pub(crate) fn spec_abstract_eq(a: SV, b: SV) -> bool {
        match (a, b) {
            (SV::Null, SV::Null) => true,
            (SV::Null, _) | (_, SV::Null) => false,
            (SV::Num(x), SV::Num(y)) => x == y,
            (SV::Str(s), SV::Str(t)) => s == t,
            (SV::Bool(x), SV::Bool(y)) => x == y,
            (SV::Num(x), SV::Str(t)) => x == tonum(t),
            (SV::Str(s), SV::Num(y)) => tonum(s) == y,
            (SV::Bool(x), _) => spec_abstract_eq(SV::Num(if x { 1.0 } else { 0.0 }), b),
            (_, SV::Bool(y)) => spec_abstract_eq(a, SV::Num(if y { 1.0 } else { 0.0 })),
            (SV::Obj(_), SV::Obj(_)) => false,
            (_, SV::Obj(l)) => spec_abstract_eq(a, SV::Str(l)),
            (SV::Obj(l), _) => spec_abstract_eq(SV::Str(l), b),
        }
    }
    /// C08: same primitive type and value; containers (distinct instances) never.
    pub(crate) fn spec_strict_eq(a: SV, b: SV) -> bool {
        match (a, b) {
            (SV::Null, SV::Null) => true,
            (SV::Bool(x), SV::Bool(y)) => x == y,
            (SV::Num(x), SV::Num(y)) => x == y,
            (SV::Str(s), SV::Str(t)) => s == t,
            _ => false,
        }
    }
    #[derive(Clone, Copy)]
    enum Prim {
        S(u8),
        N(f64),
    }
    fn prim(a: SV) -> Prim {
        match a {
            SV::Null => Prim::N(0.0),
            SV::Bool(b) => Prim::N(if b { 1.0 } else { 0.0 }),
            SV::Num(x) => Prim::N(x),
            SV::Str(l) => Prim::S(l),
            SV::Obj(l) => Prim::S(l),
        }
    }
    /// C09: relational comparison. `strict`: `<` (true) or `<=` (false) on the converted operands.
    pub(crate) fn spec_rel(a: SV, b: SV, strict: bool) -> bool {
        match (prim(a), prim(b)) {
            (Prim::S(s), Prim::S(t)) => {
                if strict {
                    s < t
                } else {
                    s <= t
                }
            }
            (pa, pb) => {
                let x = match pa {
                    Prim::N(x) => x,
                    Prim::S(l) => tonum(l),
                };
                let y = match pb {
                    Prim::N(y) => y,
                    Prim::S(l) => tonum(l),
                };
                if strict {
                    x < y
                } else {
                    x <= y
                }
            }
        }
    }

    // ------------------------------------------------------------------ harness bodies
    pub(crate) fn body_abstract_eq(ka: u8, kb: u8) {
        plan_conversions();
        let (a, sa) = mk(ka, 0, kb);
        let (b, sb) = mk(kb, 1, ka);
        register(&a, &b);
        show("abstract_eq(a, b)", &a, &b);
        let r = abstract_eq(&a, &b);
        kani::cover!(true, "assertions reached");
        assert!(r == spec_abstract_eq(sa, sb), "abstract_eq differs from ECMAScript abstract equality");
        // symmetry and != as exact negation (same operands)
        assert!(abstract_eq(&b, &a) == r, "abstract_eq is not symmetric");
        assert!(abstract_ne(&a, &b) == !r, "abstract_ne is not the negation of abstract_eq");
    }
    pub(crate) fn body_strict_eq(ka: u8, kb: u8) {
        plan_conversions();
        let (a, sa) = mk(ka, 0, kb);
        let (b, sb) = mk(kb, 1, ka);
        register(&a, &b);
        show("strict_eq(a, b)", &a, &b);
        let r = strict_eq(&a, &b);
        kani::cover!(true, "assertions reached");
        assert!(r == spec_strict_eq(sa, sb), "strict_eq differs from the === table");
        assert!(strict_eq(&b, &a) == r, "strict_eq is not symmetric");
        assert!(strict_ne(&a, &b) == !r, "strict_ne is not the negation of strict_eq");
        if r {
            assert!(abstract_eq(&a, &b), "=== holds but == does not");
        }
    }
    pub(crate) fn body_rel(ka: u8, kb: u8) {
        plan_conversions();
        let (a, sa) = mk(ka, 0, kb);
        let (b, sb) = mk(kb, 1, ka);
        register(&a, &b);
        show("abstract_lt/lte(a, b), abstract_gt/gte(b, a)", &a, &b);
        let lt = abstract_lt(&a, &b);
        let le = abstract_lte(&a, &b);
        kani::cover!(true, "assertions reached");
        assert!(lt == spec_rel(sa, sb, true), "abstract_lt differs from ECMAScript a < b");
        assert!(le == spec_rel(sa, sb, false), "abstract_lte differs from ECMAScript a <= b (converted operands less or equal)");
        assert!(abstract_gt(&b, &a) == lt, "abstract_gt(b, a) differs from abstract_lt(a, b)");
        assert!(abstract_gte(&b, &a) == le, "abstract_gte(b, a) differs from abstract_lte(a, b)");
    }

    // =====================================================================================
    // to_string (C07, C16): the string forms that do not need number formatting or array joining
    // =====================================================================================
    fn str_is(s: &String, w: &[u8]) -> bool {
        let b = s.as_bytes();
        if b.len() != w.len() {
            return false;
        }
        let mut i = 0;
        while i < w.len() {
            if b[i] != w[i] {
                return false;
            }
            i += 1;
        }
        true
    }
    //@ob name=C16.to_string.scalars props=C16,C07,C01 strength=bounded bound="null, both booleans, every 2-byte ASCII string, the empty object (numbers: serde's formatter is outside Kani; arrays: not decided)" fns=js_op::to_string replay=generic timeout=200
    //@ desc="to_string: null -> \"null\", booleans -> \"true\"/\"false\", strings unchanged, objects -> \"[object Object]\""
    #[cfg_attr(kani, kani::proof)]
    #[cfg_attr(kani, kani::unwind(18))]
    pub(crate) fn k_c16_to_string_scalars() {
        let n = MD::new(Value::Null);
        assert!(str_is(&MD::new(to_string(&n)), b"null"), "to_string(null) is \"null\"");
        let t = MD::new(Value::Bool(true));
        let f = MD::new(Value::Bool(false));
        assert!(str_is(&MD::new(to_string(&t)), b"true") && str_is(&MD::new(to_string(&f)), b"false"), "to_string(bool)");
        let s = MD::new(Value::String(any_ascii_string::<2>()));
        let out = MD::new(to_string(&s));
        match &*s {
            Value::String(orig) => assert!(out.as_bytes().len() == 2 && out.as_bytes()[0] == orig.as_bytes()[0] && out.as_bytes()[1] == orig.as_bytes()[1], "to_string(string) is the string itself"),
            _ => {}
        }
        let o = MD::new(Value::Object(serde_json::Map::new()));
        assert!(str_is(&MD::new(to_string(&o)), b"[object Object]"), "to_string(object) is \"[object Object]\"");
        kani::cover!(true, "checked");
    }

    // =====================================================================================
    // to_number / to_primitive dispatch (C09, C10): Number-style conversion per kind.
    // =====================================================================================
    pub(crate) fn spec_to_number(a: SV) -> Option<f64> {
        match a {
            SV::Null => Some(0.0),
            SV::Bool(b) => Some(if b { 1.0 } else { 0.0 }),
            SV::Num(x) => Some(x),
            SV::Str(l) | SV::Obj(l) => unsafe { S2N_PLAN[label_idx(l)] },
        }
    }
    fn same_opt_f64(a: Option<f64>, b: Option<f64>) -> bool {
        match (a, b) {
            (None, None) => true,
            (Some(x), Some(y)) => x.to_bits() == y.to_bits() || (x == y) || (x.is_nan() && y.is_nan()),
            _ => false,
        }
    }
    pub(crate) fn body_to_number(k: u8) {
        plan_conversions();
        let (a, sa) = mk(k, 0, K_NULL);
        register(&a, &a);
        #[cfg(verif_replay)]
        eprintln!("REPLAY-INPUT: to_number(a): a = {}", &*a);
        let r = to_number(&a);
        kani::cover!(true, "assertions reached");
        assert!(same_opt_f64(r, spec_to_number(sa)), "to_number differs from Number-style conversion (null,false->0; true->1; number; string and container string form by ToNumber)");
        // to_primitive_number: numeric primitives only
        let p = to_primitive_number(&a);
        let expect = match sa {
            SV::Null | SV::Bool(_) | SV::Num(_) => spec_to_number(sa),
            _ => None,
        };
        assert!(same_opt_f64(p, expect), "to_primitive_number: numeric primitive expected exactly for null/bool/number");
    }
    macro_rules! kind_harness {
        ($name:ident, $body:ident, $k:expr) => {
            #[cfg_attr(kani, kani::proof)]
            #[cfg_attr(kani, kani::stub(crate::js_op::str_to_number, s2n_stub))]
            #[cfg_attr(kani, kani::stub(crate::js_op::to_string, to_string_stub))]
            #[cfg_attr(kani, kani::stub(std::fmt::format, crate::verif_support::fmt_stub))]
            pub(crate) fn $name() {
                $body($k);
            }
        };
    }
    //@ob name=C10.to_number.null harness=k_c10_to_number_null props=C10,C09,C01 strength=complete fns=js_op::to_number,js_op::to_primitive_number stubs=3 replay=generic
    //@ desc="to_number(null) == 0"
    kind_harness!(k_c10_to_number_null, body_to_number, K_NULL);
    //@ob name=C10.to_number.bool harness=k_c10_to_number_bool props=C10,C09,C01 strength=complete fns=js_op::to_number,js_op::to_primitive_number stubs=3 replay=generic
    //@ desc="to_number(false) == 0, to_number(true) == 1"
    kind_harness!(k_c10_to_number_bool, body_to_number, K_BOOL);
    //@ob name=C10.to_number.num harness=k_c10_to_number_num props=C10,C09,C01 strength=complete fns=js_op::to_number,js_op::to_primitive_number stubs=3 replay=generic
    //@ desc="to_number(n) == n as a double, for every i64 / u64 / finite f64"
    kind_harness!(k_c10_to_number_num, body_to_number, K_NUM);
    //@ob name=C10.to_number.str harness=k_c10_to_number_str props=C10,C09,C01 strength=complete fns=js_op::to_number stubs=3 replay=generic
    //@ desc="to_number(string) == str_to_number(string) (callee by contract)"
    kind_harness!(k_c10_to_number_str, body_to_number, K_STR);
    //@ob name=C10.to_number.arr harness=k_c10_to_number_arr props=C10,C09,C01 strength=complete fns=js_op::to_number stubs=3 replay=generic
    //@ desc="to_number(array) == str_to_number(to_string(array)) (callees by contract)"
    kind_harness!(k_c10_to_number_arr, body_to_number, K_ARR);
    //@ob name=C10.to_number.obj harness=k_c10_to_number_obj props=C10,C09,C01 strength=complete fns=js_op::to_number stubs=3 replay=generic
    //@ desc="to_number(object) == str_to_number(to_string(object)) (callees by contract)"
    kind_harness!(k_c10_to_number_obj, body_to_number, K_OBJ);

    // =====================================================================================
    // Binary arithmetic helpers (C10): with to_number by contract (an arbitrary Option<f64> per
    // operand), the result is Err iff an operand is non-numeric, else the exact IEEE-754 result.
    // =====================================================================================
    pub(crate) static mut TN_PTR: [*const Value; 5] = [std::ptr::null(); 5];
    pub(crate) static mut TN_PLAN: [Option<f64>; 5] = [None; 5];
    pub(crate) static mut TN_CALLS: [u8; 5] = [0; 5];
    /// contract stub for `to_number` / `parse_float`: the planned conversion of the operand at that address.
    pub(crate) fn to_number_stub(value: &Value) -> Option<f64> {
        let p = value as *const Value;
        let mut i = 0;
        while i < 5 {
            if unsafe { TN_PTR[i] } == p {
                unsafe { TN_CALLS[i] += 1 };
                return unsafe { TN_PLAN[i] };
            }
            i += 1;
        }
        assert!(false, "conversion requested for a value that is not an operand");
        None
    }
    fn plan_operand(i: usize, v: &Value) -> Option<f64> {
        let has: bool = kani::any();
        plan_operand_has(i, v, has)
    }
    /// `has` concrete per harness instance keeps every Result/Option discriminant on the path concrete
    /// (measured: symbolic discriminants make CBMC explore the recursive Value drop glue: 160 s vs 7 s).
    fn plan_operand_has(i: usize, v: &Value, has: bool) -> Option<f64> {
        let x: f64 = kani::any();
        // a JSON value never converts to NaN-as-a-number: non-numeric is None (contract of to_number)
        kani::assume(!x.is_nan());
        let p = if has { Some(x) } else { None };
        unsafe {
            TN_PTR[i] = v as *const Value;
            TN_PLAN[i] = p;
        }
        p
    }
    fn same_f64(a: f64, b: f64) -> bool {
        a.to_bits() == b.to_bits() || (a.is_nan() && b.is_nan())
    }
    macro_rules! check_bin {
        ($r:expr, $pa:expr, $pb:expr, $op:tt) => {
            match ($pa, $pb) {
                (Some(x), Some(y)) => match &*$r {
                    Ok(v) => {
                        let expect = x $op y;
                        assert!(same_f64(*v, expect), "binary arithmetic helper: not the exact IEEE-754 result")
                    }
                    Err(_) => assert!(false, "binary arithmetic helper: error although both operands are numeric"),
                },
                _ => assert!($r.is_err(), "binary arithmetic helper: a number although an operand is non-numeric"),
            }
        };
    }
    //@ob name=C10.abstract_minus props=C10,C01 strength=complete fns=js_op::abstract_minus stubs=2
    //@ desc="abstract_minus(a,b): Err iff an operand is non-numeric, else bit-exactly to_number(a) - to_number(b), for all pairs of doubles"
    #[cfg_attr(kani, kani::proof)]
    #[cfg_attr(kani, kani::stub(crate::js_op::to_number, to_number_stub))]
    #[cfg_attr(kani, kani::stub(std::fmt::format, crate::verif_support::fmt_stub))]
    pub(crate) fn k_c10_abstract_minus() {
        let a = MD::new(Value::Null);
        let b = MD::new(Value::Null);
        let (pa, pb) = (plan_operand(0, &a), plan_operand(1, &b));
        let r = MD::new(abstract_minus(&a, &b));
        kani::cover!(r.is_ok());
        kani::cover!(r.is_err());
        check_bin!(r, pa, pb, -);
    }
    /// Operand domain of the *value* part of the `/` and `%` obligations. Bit-level equivalence of two
    /// double dividers over symbolic operands does not finish in CBMC (measured: a bare `x / y == x / y`
    /// through an Option > 200 s with CaDiCaL; no usable SMT back end here), so the quotient / remainder is
    /// checked on a grid of concrete doubles (bounded); Ok/Err and panic-freedom are proved for ALL doubles
    /// by the `.errors` obligations.
    const GRID: [f64; 16] = [
        0.0, -0.0, 1.0, -1.0, 2.0, 3.0, -7.5, 0.1, 10.0, 4.9e-324, 9007199254740993.0, -9223372036854775808.0,
        1.7976931348623157e308, f64::INFINITY, f64::NEG_INFINITY, 1e-7,
    ];
    fn plan_operand_coarse(i: usize, v: &Value) -> Option<f64> {
        let has: bool = kani::any();
        plan_operand_coarse_has(i, v, has)
    }
    fn plan_operand_coarse_has(i: usize, v: &Value, has: bool) -> Option<f64> {
        let idx: usize = kani::any();
        kani::assume(idx < 16);
        let p = if has { Some(GRID[idx]) } else { None };
        unsafe {
            TN_PTR[i] = v as *const Value;
            TN_PLAN[i] = p;
        }
        p
    }
    //@ob name=C10.abstract_div props=C10,C01 strength=bounded bound="quotient/remainder value on a 16x16 grid of concrete doubles (0,-0,1,-1,2,3,-7.5,0.1,10,4.9e-324,2^53+1,-2^63,f64::MAX,+-inf,1e-7)" fns=js_op::abstract_div stubs=2 timeout=600
    //@ desc="abstract_div(a,b): Err iff an operand is non-numeric, else bit-exactly to_number(a) / to_number(b) (division by zero gives +-inf/NaN, no panic)"
    #[cfg_attr(kani, kani::proof)]
    #[cfg_attr(kani, kani::stub(crate::js_op::to_number, to_number_stub))]
    #[cfg_attr(kani, kani::stub(std::fmt::format, crate::verif_support::fmt_stub))]
    pub(crate) fn k_c10_abstract_div() {
        let a = MD::new(Value::Null);
        let b = MD::new(Value::Null);
        let (pa, pb) = (plan_operand_coarse(0, &a), plan_operand_coarse(1, &b));
        let r = MD::new(abstract_div(&a, &b));
        kani::cover!(r.is_ok());
        kani::cover!(r.is_err());
        check_bin!(r, pa, pb, /);
    }
    //@ob name=C10.abstract_div.errors props=C10,C01 strength=complete fns=js_op::abstract_div stubs=2
    //@ desc="abstract_div(a,b) for ALL doubles: Ok iff both operands are numeric; never panics (no claim about the quotient here)"
    #[cfg_attr(kani, kani::proof)]
    #[cfg_attr(kani, kani::stub(crate::js_op::to_number, to_number_stub))]
    #[cfg_attr(kani, kani::stub(std::fmt::format, crate::verif_support::fmt_stub))]
    pub(crate) fn k_c10_abstract_div_errors() {
        let a = MD::new(Value::Null);
        let b = MD::new(Value::Null);
        let (pa, pb) = (plan_operand(0, &a), plan_operand(1, &b));
        let r = MD::new(abstract_div(&a, &b));
        kani::cover!(r.is_ok());
        kani::cover!(r.is_err());
        assert!(r.is_ok() == (pa.is_some() && pb.is_some()), "abstract_div: Ok iff both operands numeric");
    }
    //@ob name=C10.abstract_mod props=C10,C01 strength=bounded bound="quotient/remainder value on a 16x16 grid of concrete doubles (0,-0,1,-1,2,3,-7.5,0.1,10,4.9e-324,2^53+1,-2^63,f64::MAX,+-inf,1e-7)" fns=js_op::abstract_mod stubs=2 timeout=600
    //@ desc="abstract_mod(a,b): Err iff an operand is non-numeric, else bit-exactly the truncated remainder to_number(a) % to_number(b)"
    #[cfg_attr(kani, kani::proof)]
    #[cfg_attr(kani, kani::stub(crate::js_op::to_number, to_number_stub))]
    #[cfg_attr(kani, kani::stub(std::fmt::format, crate::verif_support::fmt_stub))]
    pub(crate) fn k_c10_abstract_mod() {
        let a = MD::new(Value::Null);
        let b = MD::new(Value::Null);
        let (pa, pb) = (plan_operand_coarse(0, &a), plan_operand_coarse(1, &b));
        let r = MD::new(abstract_mod(&a, &b));
        kani::cover!(r.is_ok());
        kani::cover!(r.is_err());
        check_bin!(r, pa, pb, %);
    }
    //@ob name=C10.abstract_mod.errors props=C10,C01 strength=complete fns=js_op::abstract_mod stubs=2
    //@ desc="abstract_mod(a,b) for ALL doubles: Ok iff both operands are numeric; never panics"
    #[cfg_attr(kani, kani::proof)]
    #[cfg_attr(kani, kani::stub(crate::js_op::to_number, to_number_stub))]
    #[cfg_attr(kani, kani::stub(std::fmt::format, crate::verif_support::fmt_stub))]
    pub(crate) fn k_c10_abstract_mod_errors() {
        let a = MD::new(Value::Null);
        let b = MD::new(Value::Null);
        let (pa, pb) = (plan_operand(0, &a), plan_operand(1, &b));
        let r = MD::new(abstract_mod(&a, &b));
        kani::cover!(r.is_ok());
        kani::cover!(r.is_err());
        assert!(r.is_ok() == (pa.is_some() && pb.is_some()), "abstract_mod: Ok iff both operands numeric");
    }
    //@ob name=C10.to_negative props=C10,C01 strength=complete fns=js_op::to_negative stubs=2
    //@ desc="to_negative(a): Err iff a is non-numeric, else the negation of to_number(a) (numerically; -0 and 0 identified)"
    #[cfg_attr(kani, kani::proof)]
    #[cfg_attr(kani, kani::stub(crate::js_op::to_number, to_number_stub))]
    #[cfg_attr(kani, kani::stub(std::fmt::format, crate::verif_support::fmt_stub))]
    pub(crate) fn k_c10_to_negative() {
        let a = MD::new(Value::Null);
        let pa = plan_operand(0, &a);
        let r = MD::new(to_negative(&a));
        kani::cover!(r.is_ok());
        kani::cover!(r.is_err());
        match (pa, &*r) {
            (Some(x), Ok(v)) => assert!(*v == -x, "to_negative: not the negation"),
            (None, Err(_)) => {}
            _ => assert!(false, "to_negative: Err iff non-numeric violated"),
        }
    }

    // ---- the same helpers on real JSON numbers, conversions NOT stubbed: JSON integers convert to their
    // double before the operation (so 2^53+1 behaves as 2^53), whatever their spelling
    const INT_GRID: [i64; 10] = [0, 1, 2, 3, -7, 10, 9007199254740992, 9007199254740993, i64::MAX, i64::MIN];
    fn grid_number(sel: usize, as_float: bool) -> Number {
        let i = INT_GRID[sel];
        if as_float { Number::from_f64(i as f64).unwrap() } else { Number::from(i) }
    }
    pub(crate) fn body_arith_numbers(which: u8) {
        let sa: usize = kani::any();
        let sb: usize = kani::any();
        kani::assume(sa < 10 && sb < 10);
        let fa: bool = kani::any();
        let fb: bool = kani::any();
        let na = grid_number(sa, fa);
        let nb = grid_number(sb, fb);
        let (x, y) = (na.as_f64().unwrap(), nb.as_f64().unwrap());
        let a = MD::new(Value::Number(na));
        let b = MD::new(Value::Number(nb));
        #[cfg(verif_replay)]
        eprintln!("REPLAY-INPUT: arithmetic helper {} on a = {}  b = {}", which, &*a, &*b);
        let r = MD::new(match which {
            0 => abstract_minus(&a, &b),
            1 => abstract_div(&a, &b),
            _ => abstract_mod(&a, &b),
        });
        kani::cover!(true, "returned");
        let expect = match which {
            0 => x - y,
            1 => x / y,
            _ => x % y,
        };
        match &*r {
            Ok(v) => assert!(same_f64(*v, expect), "arithmetic on JSON numbers must be the IEEE-754 operation on their doubles (an integer above 2^53 is its nearest double)"),
            Err(_) => assert!(false, "two JSON numbers are always numeric operands"),
        }
    }
    /// `+` / `*` on real JSON integers (conversions NOT stubbed): the left fold of IEEE-754 operations on their
    /// doubles - 2^53 + 1 + 1 is 2^53, not 2^53 + 2
    pub(crate) fn body_fold_numbers(n: usize, mul: bool) {
        let sel: [usize; 3] = [kani::any(), kani::any(), kani::any()];
        kani::assume(sel[0] < 10 && sel[1] < 10 && sel[2] < 10);
        let vals = [
            MD::new(Value::Number(grid_number(sel[0], false))),
            MD::new(Value::Number(grid_number(sel[1], kani::any()))),
            MD::new(Value::Number(grid_number(sel[2], false))),
        ];
        let mut items: Vec<&Value> = Vec::with_capacity(3);
        let mut acc: f64 = if mul { 1.0 } else { 0.0 };
        let mut i = 0;
        while i < n {
            items.push(&*vals[i]);
            let x = INT_GRID[sel[i]] as f64;
            acc = if mul { acc * x } else { acc + x };
            i += 1;
        }
        let items = MD::new(items);
        #[cfg(verif_replay)]
        eprintln!("REPLAY-INPUT: {} over {:?}", if mul { "*" } else { "+" }, &*items);
        let r = MD::new(if mul { parse_float_mul(&items) } else { parse_float_add(&items) });
        kani::cover!(true, "returned");
        match &*r {
            Ok(v) => assert!(same_f64(*v, acc), "+ / * on JSON numbers: the left fold of IEEE-754 operations on the operands' doubles (integers above 2^53 are their nearest double)"),
            Err(_) => assert!(false, "JSON numbers are always numeric operands"),
        }
    }
    macro_rules! fold_numbers_harness {
        ($name:ident, $n:expr, $mul:expr) => {
            #[cfg_attr(kani, kani::proof)]
            #[cfg_attr(kani, kani::unwind(6))]
            #[cfg_attr(kani, kani::stub(<serde_json::Value as std::clone::Clone>::clone, crate::verif_support::value_clone_shallow))]
            #[cfg_attr(kani, kani::stub(crate::js_op::to_string, to_string_stub))]
            #[cfg_attr(kani, kani::stub(std::fmt::format, crate::verif_support::fmt_stub))]
            pub(crate) fn $name() {
                body_fold_numbers($n, $mul);
            }
        };
    }
    //@ob name=C10.fold.add.numbers2 harness=k_c10_fold_add_numbers2 props=C10,C01 strength=bounded bound="2 operands out of 10 integers (0,1,2,3,-7,10,2^53,2^53+1,i64::MAX,i64::MIN); real conversions" fns=js_op::parse_float_add,js_op::parse_float stubs=3 replay=generic timeout=400
    //@ desc="`+` on two JSON integers is the IEEE-754 sum of their doubles (9007199254740993 + 1 is 9007199254740992)"
    fold_numbers_harness!(k_c10_fold_add_numbers2, 2, false);
    //@ob name=C10.fold.add.numbers3 harness=k_c10_fold_add_numbers3 props=C10,C01 strength=bounded bound="3 operands out of the same 10 integers; real conversions" fns=js_op::parse_float_add,js_op::parse_float stubs=3 replay=generic timeout=600
    //@ desc="`+` on three JSON integers is the LEFT fold of IEEE-754 sums"
    fold_numbers_harness!(k_c10_fold_add_numbers3, 3, false);
    //@ob name=C10.fold.mul.numbers2 harness=k_c10_fold_mul_numbers2 props=C10,C01 strength=bounded bound="2 operands out of the same 10 integers; real conversions" fns=js_op::parse_float_mul,js_op::parse_float stubs=3 replay=generic timeout=600
    //@ desc="`*` on two JSON integers is the IEEE-754 product of their doubles"
    fold_numbers_harness!(k_c10_fold_mul_numbers2, 2, true);

    macro_rules! arith_numbers_harness {
        ($name:ident, $which:expr) => {
            #[cfg_attr(kani, kani::proof)]
            #[cfg_attr(kani, kani::stub(crate::js_op::to_string, to_string_stub))]
            #[cfg_attr(kani, kani::stub(std::fmt::format, crate::verif_support::fmt_stub))]
            pub(crate) fn $name() {
                body_arith_numbers($which);
            }
        };
    }
    //@ob name=C10.abstract_minus.numbers harness=k_c10_minus_numbers props=C10,C01 strength=bounded bound="operands: 10 integers (0,1,2,3,-7,10,2^53,2^53+1,i64::MAX,i64::MIN), each spelled as integer or as float" fns=js_op::abstract_minus,js_op::to_number stubs=2 replay=generic timeout=300
    //@ desc="abstract_minus on JSON numbers = IEEE subtraction of their doubles (real conversions)"
    arith_numbers_harness!(k_c10_minus_numbers, 0);
    //@ob name=C10.abstract_div.numbers harness=k_c10_div_numbers props=C10,C01 strength=bounded bound="operands: 10 integers (0,1,2,3,-7,10,2^53,2^53+1,i64::MAX,i64::MIN), each spelled as integer or as float" fns=js_op::abstract_div,js_op::to_number stubs=2 replay=generic timeout=300
    //@ desc="abstract_div on JSON numbers = IEEE division of their doubles (real conversions)"
    arith_numbers_harness!(k_c10_div_numbers, 1);
    //@ob name=C10.abstract_mod.numbers harness=k_c10_mod_numbers props=C10,C01 strength=bounded bound="operands: 10 integers (0,1,2,3,-7,10,2^53,2^53+1,i64::MAX,i64::MIN), each spelled as integer or as float" fns=js_op::abstract_mod,js_op::to_number stubs=2 replay=generic timeout=300
    //@ desc="abstract_mod on JSON numbers = truncated remainder of their doubles (real conversions): 9007199254740993 % 2 is 0"
    arith_numbers_harness!(k_c10_mod_numbers, 2);

    // =====================================================================================
    // Folds (C10): `+`/`*` fold parseFloat conversions from 0/1; max/min fold Number conversions.
    // Conversions by contract (planned Option<f64> per operand address).
    // =====================================================================================
    pub(crate) fn check_fold(n: usize, which: u8, plan: &[Option<f64>; 5], r: &Result<f64, Error>) {
        // expected: Err iff some operand is non-numeric; else the left fold
        let mut all = true;
        let mut acc: f64 = match which {
            0 => 0.0,
            1 => 1.0,
            2 => f64::NEG_INFINITY,
            _ => f64::INFINITY,
        };
        let mut j = 0;
        while j < n {
            match plan[j] {
                None => all = false,
                Some(x) => {
                    acc = match which {
                        0 => acc + x,
                        1 => acc * x,
                        2 => if x > acc { x } else { acc },
                        _ => if x < acc { x } else { acc },
                    }
                }
            }
            j += 1;
        }
        match r {
            Ok(v) => {
                assert!(all, "fold: a number although an operand is non-numeric");
                if which < 2 {
                    assert!(same_f64(*v, acc), "+ / *: not the exact left fold of IEEE-754 results from 0 / 1");
                } else {
                    assert!(*v == acc, "max / min: not the maximum / minimum of the converted operands");
                }
            }
            Err(_) => assert!(!all, "fold: error although every operand is numeric"),
        }
    }
    macro_rules! fold_harness {
        ($name:ident, $n:expr, $which:expr, $callee:ident, $pat:expr) => {
            #[cfg_attr(kani, kani::proof)]
            #[cfg_attr(kani, kani::unwind(7))]
            #[cfg_attr(kani, kani::stub(<serde_json::Value as std::clone::Clone>::clone, crate::verif_support::value_clone_shallow))]
            #[cfg_attr(kani, kani::stub(crate::js_op::to_number, to_number_stub))]
            #[cfg_attr(kani, kani::stub(crate::js_op::parse_float, to_number_stub))]
            #[cfg_attr(kani, kani::stub(std::fmt::format, crate::verif_support::fmt_stub))]
            pub(crate) fn $name() {
                let vals = [MD::new(Value::Null), MD::new(Value::Null), MD::new(Value::Null), MD::new(Value::Null), MD::new(Value::Null)];
                let mut plan: [Option<f64>; 5] = [None; 5];
                let mut items: Vec<&Value> = Vec::with_capacity(5);
                let mut i = 0;
                while i < $n {
                    // max/min only compare: operands are arbitrary doubles; +/* recompute: grid operands (see GRID)
                    let has = ($pat >> i) & 1 == 1;
                    plan[i] = if $which >= 2 { plan_operand_has(i, &vals[i], has) } else { plan_operand_coarse_has(i, &vals[i], has) };
                    items.push(&*vals[i]);
                    i += 1;
                }
                let items = MD::new(items);
                let r = MD::new($callee(&items));
                kani::cover!(true, "returned");
                check_fold($n, $which, &plan, &r);
            }
        };
    }
//@GENERATED-FOLDS
    //@ob name=C10.fold.add.0.empty harness=k_c10_fold_add_0_empty props=C10,C01 tier=quick strength=bounded bound="0 operands (numeric/non-numeric pattern empty); operand conversions: a 16-value grid of concrete doubles per operand" fns=js_op::parse_float_add stubs=4 timeout=400 cutdrop=1
    //@ desc="+ folds parseFloat conversions from 0 over 0 operands: Err iff some operand is non-numeric, else exactly the left fold; conversions by contract"
    fold_harness!(k_c10_fold_add_0_empty, 0, 0, parse_float_add, 0);
    //@ob name=C10.fold.add.1.x harness=k_c10_fold_add_1_x props=C10,C01 tier=thorough strength=bounded bound="1 operands (numeric/non-numeric pattern x); operand conversions: a 16-value grid of concrete doubles per operand" fns=js_op::parse_float_add stubs=4 timeout=400 cutdrop=1
    //@ desc="+ folds parseFloat conversions from 0 over 1 operands: Err iff some operand is non-numeric, else exactly the left fold; conversions by contract"
    fold_harness!(k_c10_fold_add_1_x, 1, 0, parse_float_add, 0);
    //@ob name=C10.fold.add.1.N harness=k_c10_fold_add_1_N props=C10,C01 tier=quick strength=bounded bound="1 operands (numeric/non-numeric pattern N); operand conversions: a 16-value grid of concrete doubles per operand" fns=js_op::parse_float_add stubs=4 timeout=400 cutdrop=1
    //@ desc="+ folds parseFloat conversions from 0 over 1 operands: Err iff some operand is non-numeric, else exactly the left fold; conversions by contract"
    fold_harness!(k_c10_fold_add_1_N, 1, 0, parse_float_add, 1);
    //@ob name=C10.fold.add.2.xx harness=k_c10_fold_add_2_xx props=C10,C01 tier=thorough strength=bounded bound="2 operands (numeric/non-numeric pattern xx); operand conversions: a 16-value grid of concrete doubles per operand" fns=js_op::parse_float_add stubs=4 timeout=400 cutdrop=1
    //@ desc="+ folds parseFloat conversions from 0 over 2 operands: Err iff some operand is non-numeric, else exactly the left fold; conversions by contract"
    fold_harness!(k_c10_fold_add_2_xx, 2, 0, parse_float_add, 0);
    //@ob name=C10.fold.add.2.Nx harness=k_c10_fold_add_2_Nx props=C10,C01 tier=thorough strength=bounded bound="2 operands (numeric/non-numeric pattern Nx); operand conversions: a 16-value grid of concrete doubles per operand" fns=js_op::parse_float_add stubs=4 timeout=400 cutdrop=1
    //@ desc="+ folds parseFloat conversions from 0 over 2 operands: Err iff some operand is non-numeric, else exactly the left fold; conversions by contract"
    fold_harness!(k_c10_fold_add_2_Nx, 2, 0, parse_float_add, 1);
    //@ob name=C10.fold.add.2.xN harness=k_c10_fold_add_2_xN props=C10,C01 tier=thorough strength=bounded bound="2 operands (numeric/non-numeric pattern xN); operand conversions: a 16-value grid of concrete doubles per operand" fns=js_op::parse_float_add stubs=4 timeout=400 cutdrop=1
    //@ desc="+ folds parseFloat conversions from 0 over 2 operands: Err iff some operand is non-numeric, else exactly the left fold; conversions by contract"
    fold_harness!(k_c10_fold_add_2_xN, 2, 0, parse_float_add, 2);
    //@ob name=C10.fold.add.2.NN harness=k_c10_fold_add_2_NN props=C10,C01 tier=quick strength=bounded bound="2 operands (numeric/non-numeric pattern NN); operand conversions: a 16-value grid of concrete doubles per operand" fns=js_op::parse_float_add stubs=4 timeout=400 cutdrop=1
    //@ desc="+ folds parseFloat conversions from 0 over 2 operands: Err iff some operand is non-numeric, else exactly the left fold; conversions by contract"
    fold_harness!(k_c10_fold_add_2_NN, 2, 0, parse_float_add, 3);
    //@ob name=C10.fold.add.3.xxx harness=k_c10_fold_add_3_xxx props=C10,C01 tier=off strength=bounded bound="3 operands (numeric/non-numeric pattern xxx); operand conversions: a 16-value grid of concrete doubles per operand" fns=js_op::parse_float_add stubs=4 timeout=400 cutdrop=1
    //@ desc="+ folds parseFloat conversions from 0 over 3 operands: Err iff some operand is non-numeric, else exactly the left fold; conversions by contract"
    fold_harness!(k_c10_fold_add_3_xxx, 3, 0, parse_float_add, 0);
    //@ob name=C10.fold.add.3.Nxx harness=k_c10_fold_add_3_Nxx props=C10,C01 tier=off strength=bounded bound="3 operands (numeric/non-numeric pattern Nxx); operand conversions: a 16-value grid of concrete doubles per operand" fns=js_op::parse_float_add stubs=4 timeout=400 cutdrop=1
    //@ desc="+ folds parseFloat conversions from 0 over 3 operands: Err iff some operand is non-numeric, else exactly the left fold; conversions by contract"
    fold_harness!(k_c10_fold_add_3_Nxx, 3, 0, parse_float_add, 1);
    //@ob name=C10.fold.add.3.xNx harness=k_c10_fold_add_3_xNx props=C10,C01 tier=off strength=bounded bound="3 operands (numeric/non-numeric pattern xNx); operand conversions: a 16-value grid of concrete doubles per operand" fns=js_op::parse_float_add stubs=4 timeout=400 cutdrop=1
    //@ desc="+ folds parseFloat conversions from 0 over 3 operands: Err iff some operand is non-numeric, else exactly the left fold; conversions by contract"
    fold_harness!(k_c10_fold_add_3_xNx, 3, 0, parse_float_add, 2);
    //@ob name=C10.fold.add.3.NNx harness=k_c10_fold_add_3_NNx props=C10,C01 tier=off strength=bounded bound="3 operands (numeric/non-numeric pattern NNx); operand conversions: a 16-value grid of concrete doubles per operand" fns=js_op::parse_float_add stubs=4 timeout=400 cutdrop=1
    //@ desc="+ folds parseFloat conversions from 0 over 3 operands: Err iff some operand is non-numeric, else exactly the left fold; conversions by contract"
    fold_harness!(k_c10_fold_add_3_NNx, 3, 0, parse_float_add, 3);
    //@ob name=C10.fold.add.3.xxN harness=k_c10_fold_add_3_xxN props=C10,C01 tier=off strength=bounded bound="3 operands (numeric/non-numeric pattern xxN); operand conversions: a 16-value grid of concrete doubles per operand" fns=js_op::parse_float_add stubs=4 timeout=400 cutdrop=1
    //@ desc="+ folds parseFloat conversions from 0 over 3 operands: Err iff some operand is non-numeric, else exactly the left fold; conversions by contract"
    fold_harness!(k_c10_fold_add_3_xxN, 3, 0, parse_float_add, 4);
    //@ob name=C10.fold.add.3.NxN harness=k_c10_fold_add_3_NxN props=C10,C01 tier=off strength=bounded bound="3 operands (numeric/non-numeric pattern NxN); operand conversions: a 16-value grid of concrete doubles per operand" fns=js_op::parse_float_add stubs=4 timeout=400 cutdrop=1
    //@ desc="+ folds parseFloat conversions from 0 over 3 operands: Err iff some operand is non-numeric, else exactly the left fold; conversions by contract"
    fold_harness!(k_c10_fold_add_3_NxN, 3, 0, parse_float_add, 5);
    //@ob name=C10.fold.add.3.xNN harness=k_c10_fold_add_3_xNN props=C10,C01 tier=off strength=bounded bound="3 operands (numeric/non-numeric pattern xNN); operand conversions: a 16-value grid of concrete doubles per operand" fns=js_op::parse_float_add stubs=4 timeout=400 cutdrop=1
    //@ desc="+ folds parseFloat conversions from 0 over 3 operands: Err iff some operand is non-numeric, else exactly the left fold; conversions by contract"
    fold_harness!(k_c10_fold_add_3_xNN, 3, 0, parse_float_add, 6);
    //@ob name=C10.fold.add.3.NNN harness=k_c10_fold_add_3_NNN props=C10,C01 tier=thorough strength=bounded bound="3 operands (numeric/non-numeric pattern NNN); operand conversions: a 16-value grid of concrete doubles per operand" fns=js_op::parse_float_add stubs=4 timeout=400 cutdrop=1
    //@ desc="+ folds parseFloat conversions from 0 over 3 operands: Err iff some operand is non-numeric, else exactly the left fold; conversions by contract"
    fold_harness!(k_c10_fold_add_3_NNN, 3, 0, parse_float_add, 7);
    //@ob name=C10.fold.add.4.xxxx harness=k_c10_fold_add_4_xxxx props=C10,C01 tier=off strength=bounded bound="4 operands (numeric/non-numeric pattern xxxx); operand conversions: a 16-value grid of concrete doubles per operand" fns=js_op::parse_float_add stubs=4 timeout=400 cutdrop=1
    //@ desc="+ folds parseFloat conversions from 0 over 4 operands: Err iff some operand is non-numeric, else exactly the left fold; conversions by contract"
    fold_harness!(k_c10_fold_add_4_xxxx, 4, 0, parse_float_add, 0);
    //@ob name=C10.fold.add.4.Nxxx harness=k_c10_fold_add_4_Nxxx props=C10,C01 tier=off strength=bounded bound="4 operands (numeric/non-numeric pattern Nxxx); operand conversions: a 16-value grid of concrete doubles per operand" fns=js_op::parse_float_add stubs=4 timeout=400 cutdrop=1
    //@ desc="+ folds parseFloat conversions from 0 over 4 operands: Err iff some operand is non-numeric, else exactly the left fold; conversions by contract"
    fold_harness!(k_c10_fold_add_4_Nxxx, 4, 0, parse_float_add, 1);
    //@ob name=C10.fold.add.4.xNxx harness=k_c10_fold_add_4_xNxx props=C10,C01 tier=off strength=bounded bound="4 operands (numeric/non-numeric pattern xNxx); operand conversions: a 16-value grid of concrete doubles per operand" fns=js_op::parse_float_add stubs=4 timeout=400 cutdrop=1
    //@ desc="+ folds parseFloat conversions from 0 over 4 operands: Err iff some operand is non-numeric, else exactly the left fold; conversions by contract"
    fold_harness!(k_c10_fold_add_4_xNxx, 4, 0, parse_float_add, 2);
    //@ob name=C10.fold.add.4.NNxx harness=k_c10_fold_add_4_NNxx props=C10,C01 tier=off strength=bounded bound="4 operands (numeric/non-numeric pattern NNxx); operand conversions: a 16-value grid of concrete doubles per operand" fns=js_op::parse_float_add stubs=4 timeout=400 cutdrop=1
    //@ desc="+ folds parseFloat conversions from 0 over 4 operands: Err iff some operand is non-numeric, else exactly the left fold; conversions by contract"
    fold_harness!(k_c10_fold_add_4_NNxx, 4, 0, parse_float_add, 3);
    //@ob name=C10.fold.add.4.xxNx harness=k_c10_fold_add_4_xxNx props=C10,C01 tier=off strength=bounded bound="4 operands (numeric/non-numeric pattern xxNx); operand conversions: a 16-value grid of concrete doubles per operand" fns=js_op::parse_float_add stubs=4 timeout=400 cutdrop=1
    //@ desc="+ folds parseFloat conversions from 0 over 4 operands: Err iff some operand is non-numeric, else exactly the left fold; conversions by contract"
    fold_harness!(k_c10_fold_add_4_xxNx, 4, 0, parse_float_add, 4);
    //@ob name=C10.fold.add.4.NxNx harness=k_c10_fold_add_4_NxNx props=C10,C01 tier=off strength=bounded bound="4 operands (numeric/non-numeric pattern NxNx); operand conversions: a 16-value grid of concrete doubles per operand" fns=js_op::parse_float_add stubs=4 timeout=400 cutdrop=1
    //@ desc="+ folds parseFloat conversions from 0 over 4 operands: Err iff some operand is non-numeric, else exactly the left fold; conversions by contract"
    fold_harness!(k_c10_fold_add_4_NxNx, 4, 0, parse_float_add, 5);
    //@ob name=C10.fold.add.4.xNNx harness=k_c10_fold_add_4_xNNx props=C10,C01 tier=off strength=bounded bound="4 operands (numeric/non-numeric pattern xNNx); operand conversions: a 16-value grid of concrete doubles per operand" fns=js_op::parse_float_add stubs=4 timeout=400 cutdrop=1
    //@ desc="+ folds parseFloat conversions from 0 over 4 operands: Err iff some operand is non-numeric, else exactly the left fold; conversions by contract"
    fold_harness!(k_c10_fold_add_4_xNNx, 4, 0, parse_float_add, 6);
    //@ob name=C10.fold.add.4.NNNx harness=k_c10_fold_add_4_NNNx props=C10,C01 tier=off strength=bounded bound="4 operands (numeric/non-numeric pattern NNNx); operand conversions: a 16-value grid of concrete doubles per operand" fns=js_op::parse_float_add stubs=4 timeout=400 cutdrop=1
    //@ desc="+ folds parseFloat conversions from 0 over 4 operands: Err iff some operand is non-numeric, else exactly the left fold; conversions by contract"
    fold_harness!(k_c10_fold_add_4_NNNx, 4, 0, parse_float_add, 7);
    //@ob name=C10.fold.add.4.xxxN harness=k_c10_fold_add_4_xxxN props=C10,C01 tier=off strength=bounded bound="4 operands (numeric/non-numeric pattern xxxN); operand conversions: a 16-value grid of concrete doubles per operand" fns=js_op::parse_float_add stubs=4 timeout=400 cutdrop=1
    //@ desc="+ folds parseFloat conversions from 0 over 4 operands: Err iff some operand is non-numeric, else exactly the left fold; conversions by contract"
    fold_harness!(k_c10_fold_add_4_xxxN, 4, 0, parse_float_add, 8);
    //@ob name=C10.fold.add.4.NxxN harness=k_c10_fold_add_4_NxxN props=C10,C01 tier=off strength=bounded bound="4 operands (numeric/non-numeric pattern NxxN); operand conversions: a 16-value grid of concrete doubles per operand" fns=js_op::parse_float_add stubs=4 timeout=400 cutdrop=1
    //@ desc="+ folds parseFloat conversions from 0 over 4 operands: Err iff some operand is non-numeric, else exactly the left fold; conversions by contract"
    fold_harness!(k_c10_fold_add_4_NxxN, 4, 0, parse_float_add, 9);
    //@ob name=C10.fold.add.4.xNxN harness=k_c10_fold_add_4_xNxN props=C10,C01 tier=off strength=bounded bound="4 operands (numeric/non-numeric pattern xNxN); operand conversions: a 16-value grid of concrete doubles per operand" fns=js_op::parse_float_add stubs=4 timeout=400 cutdrop=1
    //@ desc="+ folds parseFloat conversions from 0 over 4 operands: Err iff some operand is non-numeric, else exactly the left fold; conversions by contract"
    fold_harness!(k_c10_fold_add_4_xNxN, 4, 0, parse_float_add, 10);
    //@ob name=C10.fold.add.4.NNxN harness=k_c10_fold_add_4_NNxN props=C10,C01 tier=off strength=bounded bound="4 operands (numeric/non-numeric pattern NNxN); operand conversions: a 16-value grid of concrete doubles per operand" fns=js_op::parse_float_add stubs=4 timeout=400 cutdrop=1
    //@ desc="+ folds parseFloat conversions from 0 over 4 operands: Err iff some operand is non-numeric, else exactly the left fold; conversions by contract"
    fold_harness!(k_c10_fold_add_4_NNxN, 4, 0, parse_float_add, 11);
    //@ob name=C10.fold.add.4.xxNN harness=k_c10_fold_add_4_xxNN props=C10,C01 tier=off strength=bounded bound="4 operands (numeric/non-numeric pattern xxNN); operand conversions: a 16-value grid of concrete doubles per operand" fns=js_op::parse_float_add stubs=4 timeout=400 cutdrop=1
    //@ desc="+ folds parseFloat conversions from 0 over 4 operands: Err iff some operand is non-numeric, else exactly the left fold; conversions by contract"
    fold_harness!(k_c10_fold_add_4_xxNN, 4, 0, parse_float_add, 12);
    //@ob name=C10.fold.add.4.NxNN harness=k_c10_fold_add_4_NxNN props=C10,C01 tier=off strength=bounded bound="4 operands (numeric/non-numeric pattern NxNN); operand conversions: a 16-value grid of concrete doubles per operand" fns=js_op::parse_float_add stubs=4 timeout=400 cutdrop=1
    //@ desc="+ folds parseFloat conversions from 0 over 4 operands: Err iff some operand is non-numeric, else exactly the left fold; conversions by contract"
    fold_harness!(k_c10_fold_add_4_NxNN, 4, 0, parse_float_add, 13);
    //@ob name=C10.fold.add.4.xNNN harness=k_c10_fold_add_4_xNNN props=C10,C01 tier=off strength=bounded bound="4 operands (numeric/non-numeric pattern xNNN); operand conversions: a 16-value grid of concrete doubles per operand" fns=js_op::parse_float_add stubs=4 timeout=400 cutdrop=1
    //@ desc="+ folds parseFloat conversions from 0 over 4 operands: Err iff some operand is non-numeric, else exactly the left fold; conversions by contract"
    fold_harness!(k_c10_fold_add_4_xNNN, 4, 0, parse_float_add, 14);
    //@ob name=C10.fold.add.4.NNNN harness=k_c10_fold_add_4_NNNN props=C10,C01 tier=thorough strength=bounded bound="4 operands (numeric/non-numeric pattern NNNN); operand conversions: a 16-value grid of concrete doubles per operand" fns=js_op::parse_float_add stubs=4 timeout=400 cutdrop=1
    //@ desc="+ folds parseFloat conversions from 0 over 4 operands: Err iff some operand is non-numeric, else exactly the left fold; conversions by contract"
    fold_harness!(k_c10_fold_add_4_NNNN, 4, 0, parse_float_add, 15);
    //@ob name=C10.fold.mul.0.empty harness=k_c10_fold_mul_0_empty props=C10,C01 tier=quick strength=bounded bound="0 operands (numeric/non-numeric pattern empty); operand conversions: a 16-value grid of concrete doubles per operand" fns=js_op::parse_float_mul stubs=4 timeout=400 cutdrop=1
    //@ desc="* folds parseFloat conversions from 1 over 0 operands: Err iff some operand is non-numeric, else exactly the left fold; conversions by contract"
    fold_harness!(k_c10_fold_mul_0_empty, 0, 1, parse_float_mul, 0);
    //@ob name=C10.fold.mul.1.x harness=k_c10_fold_mul_1_x props=C10,C01 tier=thorough strength=bounded bound="1 operands (numeric/non-numeric pattern x); operand conversions: a 16-value grid of concrete doubles per operand" fns=js_op::parse_float_mul stubs=4 timeout=400 cutdrop=1
    //@ desc="* folds parseFloat conversions from 1 over 1 operands: Err iff some operand is non-numeric, else exactly the left fold; conversions by contract"
    fold_harness!(k_c10_fold_mul_1_x, 1, 1, parse_float_mul, 0);
    //@ob name=C10.fold.mul.1.N harness=k_c10_fold_mul_1_N props=C10,C01 tier=quick strength=bounded bound="1 operands (numeric/non-numeric pattern N); operand conversions: a 16-value grid of concrete doubles per operand" fns=js_op::parse_float_mul stubs=4 timeout=400 cutdrop=1
    //@ desc="* folds parseFloat conversions from 1 over 1 operands: Err iff some operand is non-numeric, else exactly the left fold; conversions by contract"
    fold_harness!(k_c10_fold_mul_1_N, 1, 1, parse_float_mul, 1);
    //@ob name=C10.fold.mul.2.xx harness=k_c10_fold_mul_2_xx props=C10,C01 tier=thorough strength=bounded bound="2 operands (numeric/non-numeric pattern xx); operand conversions: a 16-value grid of concrete doubles per operand" fns=js_op::parse_float_mul stubs=4 timeout=400 cutdrop=1
    //@ desc="* folds parseFloat conversions from 1 over 2 operands: Err iff some operand is non-numeric, else exactly the left fold; conversions by contract"
    fold_harness!(k_c10_fold_mul_2_xx, 2, 1, parse_float_mul, 0);
    //@ob name=C10.fold.mul.2.Nx harness=k_c10_fold_mul_2_Nx props=C10,C01 tier=thorough strength=bounded bound="2 operands (numeric/non-numeric pattern Nx); operand conversions: a 16-value grid of concrete doubles per operand" fns=js_op::parse_float_mul stubs=4 timeout=400 cutdrop=1
    //@ desc="* folds parseFloat conversions from 1 over 2 operands: Err iff some operand is non-numeric, else exactly the left fold; conversions by contract"
    fold_harness!(k_c10_fold_mul_2_Nx, 2, 1, parse_float_mul, 1);
    //@ob name=C10.fold.mul.2.xN harness=k_c10_fold_mul_2_xN props=C10,C01 tier=thorough strength=bounded bound="2 operands (numeric/non-numeric pattern xN); operand conversions: a 16-value grid of concrete doubles per operand" fns=js_op::parse_float_mul stubs=4 timeout=400 cutdrop=1
    //@ desc="* folds parseFloat conversions from 1 over 2 operands: Err iff some operand is non-numeric, else exactly the left fold; conversions by contract"
    fold_harness!(k_c10_fold_mul_2_xN, 2, 1, parse_float_mul, 2);
    //@ob name=C10.fold.mul.2.NN harness=k_c10_fold_mul_2_NN props=C10,C01 tier=quick strength=bounded bound="2 operands (numeric/non-numeric pattern NN); operand conversions: a 16-value grid of concrete doubles per operand" fns=js_op::parse_float_mul stubs=4 timeout=400 cutdrop=1
    //@ desc="* folds parseFloat conversions from 1 over 2 operands: Err iff some operand is non-numeric, else exactly the left fold; conversions by contract"
    fold_harness!(k_c10_fold_mul_2_NN, 2, 1, parse_float_mul, 3);
    //@ob name=C10.fold.mul.3.xxx harness=k_c10_fold_mul_3_xxx props=C10,C01 tier=off strength=bounded bound="3 operands (numeric/non-numeric pattern xxx); operand conversions: a 16-value grid of concrete doubles per operand" fns=js_op::parse_float_mul stubs=4 timeout=400 cutdrop=1
    //@ desc="* folds parseFloat conversions from 1 over 3 operands: Err iff some operand is non-numeric, else exactly the left fold; conversions by contract"
    fold_harness!(k_c10_fold_mul_3_xxx, 3, 1, parse_float_mul, 0);
    //@ob name=C10.fold.mul.3.Nxx harness=k_c10_fold_mul_3_Nxx props=C10,C01 tier=off strength=bounded bound="3 operands (numeric/non-numeric pattern Nxx); operand conversions: a 16-value grid of concrete doubles per operand" fns=js_op::parse_float_mul stubs=4 timeout=400 cutdrop=1
    //@ desc="* folds parseFloat conversions from 1 over 3 operands: Err iff some operand is non-numeric, else exactly the left fold; conversions by contract"
    fold_harness!(k_c10_fold_mul_3_Nxx, 3, 1, parse_float_mul, 1);
    //@ob name=C10.fold.mul.3.xNx harness=k_c10_fold_mul_3_xNx props=C10,C01 tier=off strength=bounded bound="3 operands (numeric/non-numeric pattern xNx); operand conversions: a 16-value grid of concrete doubles per operand" fns=js_op::parse_float_mul stubs=4 timeout=400 cutdrop=1
    //@ desc="* folds parseFloat conversions from 1 over 3 operands: Err iff some operand is non-numeric, else exactly the left fold; conversions by contract"
    fold_harness!(k_c10_fold_mul_3_xNx, 3, 1, parse_float_mul, 2);
    //@ob name=C10.fold.mul.3.NNx harness=k_c10_fold_mul_3_NNx props=C10,C01 tier=off strength=bounded bound="3 operands (numeric/non-numeric pattern NNx); operand conversions: a 16-value grid of concrete doubles per operand" fns=js_op::parse_float_mul stubs=4 timeout=400 cutdrop=1
    //@ desc="* folds parseFloat conversions from 1 over 3 operands: Err iff some operand is non-numeric, else exactly the left fold; conversions by contract"
    fold_harness!(k_c10_fold_mul_3_NNx, 3, 1, parse_float_mul, 3);
    //@ob name=C10.fold.mul.3.xxN harness=k_c10_fold_mul_3_xxN props=C10,C01 tier=off strength=bounded bound="3 operands (numeric/non-numeric pattern xxN); operand conversions: a 16-value grid of concrete doubles per operand" fns=js_op::parse_float_mul stubs=4 timeout=400 cutdrop=1
    //@ desc="* folds parseFloat conversions from 1 over 3 operands: Err iff some operand is non-numeric, else exactly the left fold; conversions by contract"
    fold_harness!(k_c10_fold_mul_3_xxN, 3, 1, parse_float_mul, 4);
    //@ob name=C10.fold.mul.3.NxN harness=k_c10_fold_mul_3_NxN props=C10,C01 tier=off strength=bounded bound="3 operands (numeric/non-numeric pattern NxN); operand conversions: a 16-value grid of concrete doubles per operand" fns=js_op::parse_float_mul stubs=4 timeout=400 cutdrop=1
    //@ desc="* folds parseFloat conversions from 1 over 3 operands: Err iff some operand is non-numeric, else exactly the left fold; conversions by contract"
    fold_harness!(k_c10_fold_mul_3_NxN, 3, 1, parse_float_mul, 5);
    //@ob name=C10.fold.mul.3.xNN harness=k_c10_fold_mul_3_xNN props=C10,C01 tier=off strength=bounded bound="3 operands (numeric/non-numeric pattern xNN); operand conversions: a 16-value grid of concrete doubles per operand" fns=js_op::parse_float_mul stubs=4 timeout=400 cutdrop=1
    //@ desc="* folds parseFloat conversions from 1 over 3 operands: Err iff some operand is non-numeric, else exactly the left fold; conversions by contract"
    fold_harness!(k_c10_fold_mul_3_xNN, 3, 1, parse_float_mul, 6);
    //@ob name=C10.fold.mul.3.NNN harness=k_c10_fold_mul_3_NNN props=C10,C01 tier=thorough strength=bounded bound="3 operands (numeric/non-numeric pattern NNN); operand conversions: a 16-value grid of concrete doubles per operand" fns=js_op::parse_float_mul stubs=4 timeout=400 cutdrop=1
    //@ desc="* folds parseFloat conversions from 1 over 3 operands: Err iff some operand is non-numeric, else exactly the left fold; conversions by contract"
    fold_harness!(k_c10_fold_mul_3_NNN, 3, 1, parse_float_mul, 7);
    //@ob name=C10.fold.mul.4.xxxx harness=k_c10_fold_mul_4_xxxx props=C10,C01 tier=off strength=bounded bound="4 operands (numeric/non-numeric pattern xxxx); operand conversions: a 16-value grid of concrete doubles per operand" fns=js_op::parse_float_mul stubs=4 timeout=400 cutdrop=1
    //@ desc="* folds parseFloat conversions from 1 over 4 operands: Err iff some operand is non-numeric, else exactly the left fold; conversions by contract"
    fold_harness!(k_c10_fold_mul_4_xxxx, 4, 1, parse_float_mul, 0);
    //@ob name=C10.fold.mul.4.Nxxx harness=k_c10_fold_mul_4_Nxxx props=C10,C01 tier=off strength=bounded bound="4 operands (numeric/non-numeric pattern Nxxx); operand conversions: a 16-value grid of concrete doubles per operand" fns=js_op::parse_float_mul stubs=4 timeout=400 cutdrop=1
    //@ desc="* folds parseFloat conversions from 1 over 4 operands: Err iff some operand is non-numeric, else exactly the left fold; conversions by contract"
    fold_harness!(k_c10_fold_mul_4_Nxxx, 4, 1, parse_float_mul, 1);
    //@ob name=C10.fold.mul.4.xNxx harness=k_c10_fold_mul_4_xNxx props=C10,C01 tier=off strength=bounded bound="4 operands (numeric/non-numeric pattern xNxx); operand conversions: a 16-value grid of concrete doubles per operand" fns=js_op::parse_float_mul stubs=4 timeout=400 cutdrop=1
    //@ desc="* folds parseFloat conversions from 1 over 4 operands: Err iff some operand is non-numeric, else exactly the left fold; conversions by contract"
    fold_harness!(k_c10_fold_mul_4_xNxx, 4, 1, parse_float_mul, 2);
    //@ob name=C10.fold.mul.4.NNxx harness=k_c10_fold_mul_4_NNxx props=C10,C01 tier=off strength=bounded bound="4 operands (numeric/non-numeric pattern NNxx); operand conversions: a 16-value grid of concrete doubles per operand" fns=js_op::parse_float_mul stubs=4 timeout=400 cutdrop=1
    //@ desc="* folds parseFloat conversions from 1 over 4 operands: Err iff some operand is non-numeric, else exactly the left fold; conversions by contract"
    fold_harness!(k_c10_fold_mul_4_NNxx, 4, 1, parse_float_mul, 3);
    //@ob name=C10.fold.mul.4.xxNx harness=k_c10_fold_mul_4_xxNx props=C10,C01 tier=off strength=bounded bound="4 operands (numeric/non-numeric pattern xxNx); operand conversions: a 16-value grid of concrete doubles per operand" fns=js_op::parse_float_mul stubs=4 timeout=400 cutdrop=1
    //@ desc="* folds parseFloat conversions from 1 over 4 operands: Err iff some operand is non-numeric, else exactly the left fold; conversions by contract"
    fold_harness!(k_c10_fold_mul_4_xxNx, 4, 1, parse_float_mul, 4);
    //@ob name=C10.fold.mul.4.NxNx harness=k_c10_fold_mul_4_NxNx props=C10,C01 tier=off strength=bounded bound="4 operands (numeric/non-numeric pattern NxNx); operand conversions: a 16-value grid of concrete doubles per operand" fns=js_op::parse_float_mul stubs=4 timeout=400 cutdrop=1
    //@ desc="* folds parseFloat conversions from 1 over 4 operands: Err iff some operand is non-numeric, else exactly the left fold; conversions by contract"
    fold_harness!(k_c10_fold_mul_4_NxNx, 4, 1, parse_float_mul, 5);
    //@ob name=C10.fold.mul.4.xNNx harness=k_c10_fold_mul_4_xNNx props=C10,C01 tier=off strength=bounded bound="4 operands (numeric/non-numeric pattern xNNx); operand conversions: a 16-value grid of concrete doubles per operand" fns=js_op::parse_float_mul stubs=4 timeout=400 cutdrop=1
    //@ desc="* folds parseFloat conversions from 1 over 4 operands: Err iff some operand is non-numeric, else exactly the left fold; conversions by contract"
    fold_harness!(k_c10_fold_mul_4_xNNx, 4, 1, parse_float_mul, 6);
    //@ob name=C10.fold.mul.4.NNNx harness=k_c10_fold_mul_4_NNNx props=C10,C01 tier=off strength=bounded bound="4 operands (numeric/non-numeric pattern NNNx); operand conversions: a 16-value grid of concrete doubles per operand" fns=js_op::parse_float_mul stubs=4 timeout=400 cutdrop=1
    //@ desc="* folds parseFloat conversions from 1 over 4 operands: Err iff some operand is non-numeric, else exactly the left fold; conversions by contract"
    fold_harness!(k_c10_fold_mul_4_NNNx, 4, 1, parse_float_mul, 7);
    //@ob name=C10.fold.mul.4.xxxN harness=k_c10_fold_mul_4_xxxN props=C10,C01 tier=off strength=bounded bound="4 operands (numeric/non-numeric pattern xxxN); operand conversions: a 16-value grid of concrete doubles per operand" fns=js_op::parse_float_mul stubs=4 timeout=400 cutdrop=1
    //@ desc="* folds parseFloat conversions from 1 over 4 operands: Err iff some operand is non-numeric, else exactly the left fold; conversions by contract"
    fold_harness!(k_c10_fold_mul_4_xxxN, 4, 1, parse_float_mul, 8);
    //@ob name=C10.fold.mul.4.NxxN harness=k_c10_fold_mul_4_NxxN props=C10,C01 tier=off strength=bounded bound="4 operands (numeric/non-numeric pattern NxxN); operand conversions: a 16-value grid of concrete doubles per operand" fns=js_op::parse_float_mul stubs=4 timeout=400 cutdrop=1
    //@ desc="* folds parseFloat conversions from 1 over 4 operands: Err iff some operand is non-numeric, else exactly the left fold; conversions by contract"
    fold_harness!(k_c10_fold_mul_4_NxxN, 4, 1, parse_float_mul, 9);
    //@ob name=C10.fold.mul.4.xNxN harness=k_c10_fold_mul_4_xNxN props=C10,C01 tier=off strength=bounded bound="4 operands (numeric/non-numeric pattern xNxN); operand conversions: a 16-value grid of concrete doubles per operand" fns=js_op::parse_float_mul stubs=4 timeout=400 cutdrop=1
    //@ desc="* folds parseFloat conversions from 1 over 4 operands: Err iff some operand is non-numeric, else exactly the left fold; conversions by contract"
    fold_harness!(k_c10_fold_mul_4_xNxN, 4, 1, parse_float_mul, 10);
    //@ob name=C10.fold.mul.4.NNxN harness=k_c10_fold_mul_4_NNxN props=C10,C01 tier=off strength=bounded bound="4 operands (numeric/non-numeric pattern NNxN); operand conversions: a 16-value grid of concrete doubles per operand" fns=js_op::parse_float_mul stubs=4 timeout=400 cutdrop=1
    //@ desc="* folds parseFloat conversions from 1 over 4 operands: Err iff some operand is non-numeric, else exactly the left fold; conversions by contract"
    fold_harness!(k_c10_fold_mul_4_NNxN, 4, 1, parse_float_mul, 11);
    //@ob name=C10.fold.mul.4.xxNN harness=k_c10_fold_mul_4_xxNN props=C10,C01 tier=off strength=bounded bound="4 operands (numeric/non-numeric pattern xxNN); operand conversions: a 16-value grid of concrete doubles per operand" fns=js_op::parse_float_mul stubs=4 timeout=400 cutdrop=1
    //@ desc="* folds parseFloat conversions from 1 over 4 operands: Err iff some operand is non-numeric, else exactly the left fold; conversions by contract"
    fold_harness!(k_c10_fold_mul_4_xxNN, 4, 1, parse_float_mul, 12);
    //@ob name=C10.fold.mul.4.NxNN harness=k_c10_fold_mul_4_NxNN props=C10,C01 tier=off strength=bounded bound="4 operands (numeric/non-numeric pattern NxNN); operand conversions: a 16-value grid of concrete doubles per operand" fns=js_op::parse_float_mul stubs=4 timeout=400 cutdrop=1
    //@ desc="* folds parseFloat conversions from 1 over 4 operands: Err iff some operand is non-numeric, else exactly the left fold; conversions by contract"
    fold_harness!(k_c10_fold_mul_4_NxNN, 4, 1, parse_float_mul, 13);
    //@ob name=C10.fold.mul.4.xNNN harness=k_c10_fold_mul_4_xNNN props=C10,C01 tier=off strength=bounded bound="4 operands (numeric/non-numeric pattern xNNN); operand conversions: a 16-value grid of concrete doubles per operand" fns=js_op::parse_float_mul stubs=4 timeout=400 cutdrop=1
    //@ desc="* folds parseFloat conversions from 1 over 4 operands: Err iff some operand is non-numeric, else exactly the left fold; conversions by contract"
    fold_harness!(k_c10_fold_mul_4_xNNN, 4, 1, parse_float_mul, 14);
    //@ob name=C10.fold.mul.4.NNNN harness=k_c10_fold_mul_4_NNNN props=C10,C01 tier=thorough strength=bounded bound="4 operands (numeric/non-numeric pattern NNNN); operand conversions: a 16-value grid of concrete doubles per operand" fns=js_op::parse_float_mul stubs=4 timeout=400 cutdrop=1
    //@ desc="* folds parseFloat conversions from 1 over 4 operands: Err iff some operand is non-numeric, else exactly the left fold; conversions by contract"
    fold_harness!(k_c10_fold_mul_4_NNNN, 4, 1, parse_float_mul, 15);
    //@ob name=C10.fold.max.1.x harness=k_c10_fold_max_1_x props=C10,C01 tier=thorough strength=bounded bound="1 operands (numeric/non-numeric pattern x); operand conversions: every double" fns=js_op::abstract_max stubs=4 timeout=400 cutdrop=1
    //@ desc="max of Number conversions over 1 operands: Err iff some operand is non-numeric, else exactly the left fold; conversions by contract"
    fold_harness!(k_c10_fold_max_1_x, 1, 2, abstract_max, 0);
    //@ob name=C10.fold.max.1.N harness=k_c10_fold_max_1_N props=C10,C01 tier=quick strength=bounded bound="1 operands (numeric/non-numeric pattern N); operand conversions: every double" fns=js_op::abstract_max stubs=4 timeout=400 cutdrop=1
    //@ desc="max of Number conversions over 1 operands: Err iff some operand is non-numeric, else exactly the left fold; conversions by contract"
    fold_harness!(k_c10_fold_max_1_N, 1, 2, abstract_max, 1);
    //@ob name=C10.fold.max.2.xx harness=k_c10_fold_max_2_xx props=C10,C01 tier=thorough strength=bounded bound="2 operands (numeric/non-numeric pattern xx); operand conversions: every double" fns=js_op::abstract_max stubs=4 timeout=400 cutdrop=1
    //@ desc="max of Number conversions over 2 operands: Err iff some operand is non-numeric, else exactly the left fold; conversions by contract"
    fold_harness!(k_c10_fold_max_2_xx, 2, 2, abstract_max, 0);
    //@ob name=C10.fold.max.2.Nx harness=k_c10_fold_max_2_Nx props=C10,C01 tier=thorough strength=bounded bound="2 operands (numeric/non-numeric pattern Nx); operand conversions: every double" fns=js_op::abstract_max stubs=4 timeout=400 cutdrop=1
    //@ desc="max of Number conversions over 2 operands: Err iff some operand is non-numeric, else exactly the left fold; conversions by contract"
    fold_harness!(k_c10_fold_max_2_Nx, 2, 2, abstract_max, 1);
    //@ob name=C10.fold.max.2.xN harness=k_c10_fold_max_2_xN props=C10,C01 tier=thorough strength=bounded bound="2 operands (numeric/non-numeric pattern xN); operand conversions: every double" fns=js_op::abstract_max stubs=4 timeout=400 cutdrop=1
    //@ desc="max of Number conversions over 2 operands: Err iff some operand is non-numeric, else exactly the left fold; conversions by contract"
    fold_harness!(k_c10_fold_max_2_xN, 2, 2, abstract_max, 2);
    //@ob name=C10.fold.max.2.NN harness=k_c10_fold_max_2_NN props=C10,C01 tier=quick strength=bounded bound="2 operands (numeric/non-numeric pattern NN); operand conversions: every double" fns=js_op::abstract_max stubs=4 timeout=400 cutdrop=1
    //@ desc="max of Number conversions over 2 operands: Err iff some operand is non-numeric, else exactly the left fold; conversions by contract"
    fold_harness!(k_c10_fold_max_2_NN, 2, 2, abstract_max, 3);
    //@ob name=C10.fold.max.3.xxx harness=k_c10_fold_max_3_xxx props=C10,C01 tier=off strength=bounded bound="3 operands (numeric/non-numeric pattern xxx); operand conversions: every double" fns=js_op::abstract_max stubs=4 timeout=400 cutdrop=1
    //@ desc="max of Number conversions over 3 operands: Err iff some operand is non-numeric, else exactly the left fold; conversions by contract"
    fold_harness!(k_c10_fold_max_3_xxx, 3, 2, abstract_max, 0);
    //@ob name=C10.fold.max.3.Nxx harness=k_c10_fold_max_3_Nxx props=C10,C01 tier=off strength=bounded bound="3 operands (numeric/non-numeric pattern Nxx); operand conversions: every double" fns=js_op::abstract_max stubs=4 timeout=400 cutdrop=1
    //@ desc="max of Number conversions over 3 operands: Err iff some operand is non-numeric, else exactly the left fold; conversions by contract"
    fold_harness!(k_c10_fold_max_3_Nxx, 3, 2, abstract_max, 1);
    //@ob name=C10.fold.max.3.xNx harness=k_c10_fold_max_3_xNx props=C10,C01 tier=off strength=bounded bound="3 operands (numeric/non-numeric pattern xNx); operand conversions: every double" fns=js_op::abstract_max stubs=4 timeout=400 cutdrop=1
    //@ desc="max of Number conversions over 3 operands: Err iff some operand is non-numeric, else exactly the left fold; conversions by contract"
    fold_harness!(k_c10_fold_max_3_xNx, 3, 2, abstract_max, 2);
    //@ob name=C10.fold.max.3.NNx harness=k_c10_fold_max_3_NNx props=C10,C01 tier=off strength=bounded bound="3 operands (numeric/non-numeric pattern NNx); operand conversions: every double" fns=js_op::abstract_max stubs=4 timeout=400 cutdrop=1
    //@ desc="max of Number conversions over 3 operands: Err iff some operand is non-numeric, else exactly the left fold; conversions by contract"
    fold_harness!(k_c10_fold_max_3_NNx, 3, 2, abstract_max, 3);
    //@ob name=C10.fold.max.3.xxN harness=k_c10_fold_max_3_xxN props=C10,C01 tier=off strength=bounded bound="3 operands (numeric/non-numeric pattern xxN); operand conversions: every double" fns=js_op::abstract_max stubs=4 timeout=400 cutdrop=1
    //@ desc="max of Number conversions over 3 operands: Err iff some operand is non-numeric, else exactly the left fold; conversions by contract"
    fold_harness!(k_c10_fold_max_3_xxN, 3, 2, abstract_max, 4);
    //@ob name=C10.fold.max.3.NxN harness=k_c10_fold_max_3_NxN props=C10,C01 tier=off strength=bounded bound="3 operands (numeric/non-numeric pattern NxN); operand conversions: every double" fns=js_op::abstract_max stubs=4 timeout=400 cutdrop=1
    //@ desc="max of Number conversions over 3 operands: Err iff some operand is non-numeric, else exactly the left fold; conversions by contract"
    fold_harness!(k_c10_fold_max_3_NxN, 3, 2, abstract_max, 5);
    //@ob name=C10.fold.max.3.xNN harness=k_c10_fold_max_3_xNN props=C10,C01 tier=off strength=bounded bound="3 operands (numeric/non-numeric pattern xNN); operand conversions: every double" fns=js_op::abstract_max stubs=4 timeout=400 cutdrop=1
    //@ desc="max of Number conversions over 3 operands: Err iff some operand is non-numeric, else exactly the left fold; conversions by contract"
    fold_harness!(k_c10_fold_max_3_xNN, 3, 2, abstract_max, 6);
    //@ob name=C10.fold.max.3.NNN harness=k_c10_fold_max_3_NNN props=C10,C01 tier=thorough strength=bounded bound="3 operands (numeric/non-numeric pattern NNN); operand conversions: every double" fns=js_op::abstract_max stubs=4 timeout=400 cutdrop=1
    //@ desc="max of Number conversions over 3 operands: Err iff some operand is non-numeric, else exactly the left fold; conversions by contract"
    fold_harness!(k_c10_fold_max_3_NNN, 3, 2, abstract_max, 7);
    //@ob name=C10.fold.max.4.xxxx harness=k_c10_fold_max_4_xxxx props=C10,C01 tier=off strength=bounded bound="4 operands (numeric/non-numeric pattern xxxx); operand conversions: every double" fns=js_op::abstract_max stubs=4 timeout=400 cutdrop=1
    //@ desc="max of Number conversions over 4 operands: Err iff some operand is non-numeric, else exactly the left fold; conversions by contract"
    fold_harness!(k_c10_fold_max_4_xxxx, 4, 2, abstract_max, 0);
    //@ob name=C10.fold.max.4.Nxxx harness=k_c10_fold_max_4_Nxxx props=C10,C01 tier=off strength=bounded bound="4 operands (numeric/non-numeric pattern Nxxx); operand conversions: every double" fns=js_op::abstract_max stubs=4 timeout=400 cutdrop=1
    //@ desc="max of Number conversions over 4 operands: Err iff some operand is non-numeric, else exactly the left fold; conversions by contract"
    fold_harness!(k_c10_fold_max_4_Nxxx, 4, 2, abstract_max, 1);
    //@ob name=C10.fold.max.4.xNxx harness=k_c10_fold_max_4_xNxx props=C10,C01 tier=off strength=bounded bound="4 operands (numeric/non-numeric pattern xNxx); operand conversions: every double" fns=js_op::abstract_max stubs=4 timeout=400 cutdrop=1
    //@ desc="max of Number conversions over 4 operands: Err iff some operand is non-numeric, else exactly the left fold; conversions by contract"
    fold_harness!(k_c10_fold_max_4_xNxx, 4, 2, abstract_max, 2);
    //@ob name=C10.fold.max.4.NNxx harness=k_c10_fold_max_4_NNxx props=C10,C01 tier=off strength=bounded bound="4 operands (numeric/non-numeric pattern NNxx); operand conversions: every double" fns=js_op::abstract_max stubs=4 timeout=400 cutdrop=1
    //@ desc="max of Number conversions over 4 operands: Err iff some operand is non-numeric, else exactly the left fold; conversions by contract"
    fold_harness!(k_c10_fold_max_4_NNxx, 4, 2, abstract_max, 3);
    //@ob name=C10.fold.max.4.xxNx harness=k_c10_fold_max_4_xxNx props=C10,C01 tier=off strength=bounded bound="4 operands (numeric/non-numeric pattern xxNx); operand conversions: every double" fns=js_op::abstract_max stubs=4 timeout=400 cutdrop=1
    //@ desc="max of Number conversions over 4 operands: Err iff some operand is non-numeric, else exactly the left fold; conversions by contract"
    fold_harness!(k_c10_fold_max_4_xxNx, 4, 2, abstract_max, 4);
    //@ob name=C10.fold.max.4.NxNx harness=k_c10_fold_max_4_NxNx props=C10,C01 tier=off strength=bounded bound="4 operands (numeric/non-numeric pattern NxNx); operand conversions: every double" fns=js_op::abstract_max stubs=4 timeout=400 cutdrop=1
    //@ desc="max of Number conversions over 4 operands: Err iff some operand is non-numeric, else exactly the left fold; conversions by contract"
    fold_harness!(k_c10_fold_max_4_NxNx, 4, 2, abstract_max, 5);
    //@ob name=C10.fold.max.4.xNNx harness=k_c10_fold_max_4_xNNx props=C10,C01 tier=off strength=bounded bound="4 operands (numeric/non-numeric pattern xNNx); operand conversions: every double" fns=js_op::abstract_max stubs=4 timeout=400 cutdrop=1
    //@ desc="max of Number conversions over 4 operands: Err iff some operand is non-numeric, else exactly the left fold; conversions by contract"
    fold_harness!(k_c10_fold_max_4_xNNx, 4, 2, abstract_max, 6);
    //@ob name=C10.fold.max.4.NNNx harness=k_c10_fold_max_4_NNNx props=C10,C01 tier=off strength=bounded bound="4 operands (numeric/non-numeric pattern NNNx); operand conversions: every double" fns=js_op::abstract_max stubs=4 timeout=400 cutdrop=1
    //@ desc="max of Number conversions over 4 operands: Err iff some operand is non-numeric, else exactly the left fold; conversions by contract"
    fold_harness!(k_c10_fold_max_4_NNNx, 4, 2, abstract_max, 7);
    //@ob name=C10.fold.max.4.xxxN harness=k_c10_fold_max_4_xxxN props=C10,C01 tier=off strength=bounded bound="4 operands (numeric/non-numeric pattern xxxN); operand conversions: every double" fns=js_op::abstract_max stubs=4 timeout=400 cutdrop=1
    //@ desc="max of Number conversions over 4 operands: Err iff some operand is non-numeric, else exactly the left fold; conversions by contract"
    fold_harness!(k_c10_fold_max_4_xxxN, 4, 2, abstract_max, 8);
    //@ob name=C10.fold.max.4.NxxN harness=k_c10_fold_max_4_NxxN props=C10,C01 tier=off strength=bounded bound="4 operands (numeric/non-numeric pattern NxxN); operand conversions: every double" fns=js_op::abstract_max stubs=4 timeout=400 cutdrop=1
    //@ desc="max of Number conversions over 4 operands: Err iff some operand is non-numeric, else exactly the left fold; conversions by contract"
    fold_harness!(k_c10_fold_max_4_NxxN, 4, 2, abstract_max, 9);
    //@ob name=C10.fold.max.4.xNxN harness=k_c10_fold_max_4_xNxN props=C10,C01 tier=off strength=bounded bound="4 operands (numeric/non-numeric pattern xNxN); operand conversions: every double" fns=js_op::abstract_max stubs=4 timeout=400 cutdrop=1
    //@ desc="max of Number conversions over 4 operands: Err iff some operand is non-numeric, else exactly the left fold; conversions by contract"
    fold_harness!(k_c10_fold_max_4_xNxN, 4, 2, abstract_max, 10);
    //@ob name=C10.fold.max.4.NNxN harness=k_c10_fold_max_4_NNxN props=C10,C01 tier=off strength=bounded bound="4 operands (numeric/non-numeric pattern NNxN); operand conversions: every double" fns=js_op::abstract_max stubs=4 timeout=400 cutdrop=1
    //@ desc="max of Number conversions over 4 operands: Err iff some operand is non-numeric, else exactly the left fold; conversions by contract"
    fold_harness!(k_c10_fold_max_4_NNxN, 4, 2, abstract_max, 11);
    //@ob name=C10.fold.max.4.xxNN harness=k_c10_fold_max_4_xxNN props=C10,C01 tier=off strength=bounded bound="4 operands (numeric/non-numeric pattern xxNN); operand conversions: every double" fns=js_op::abstract_max stubs=4 timeout=400 cutdrop=1
    //@ desc="max of Number conversions over 4 operands: Err iff some operand is non-numeric, else exactly the left fold; conversions by contract"
    fold_harness!(k_c10_fold_max_4_xxNN, 4, 2, abstract_max, 12);
    //@ob name=C10.fold.max.4.NxNN harness=k_c10_fold_max_4_NxNN props=C10,C01 tier=off strength=bounded bound="4 operands (numeric/non-numeric pattern NxNN); operand conversions: every double" fns=js_op::abstract_max stubs=4 timeout=400 cutdrop=1
    //@ desc="max of Number conversions over 4 operands: Err iff some operand is non-numeric, else exactly the left fold; conversions by contract"
    fold_harness!(k_c10_fold_max_4_NxNN, 4, 2, abstract_max, 13);
    //@ob name=C10.fold.max.4.xNNN harness=k_c10_fold_max_4_xNNN props=C10,C01 tier=off strength=bounded bound="4 operands (numeric/non-numeric pattern xNNN); operand conversions: every double" fns=js_op::abstract_max stubs=4 timeout=400 cutdrop=1
    //@ desc="max of Number conversions over 4 operands: Err iff some operand is non-numeric, else exactly the left fold; conversions by contract"
    fold_harness!(k_c10_fold_max_4_xNNN, 4, 2, abstract_max, 14);
    //@ob name=C10.fold.max.4.NNNN harness=k_c10_fold_max_4_NNNN props=C10,C01 tier=thorough strength=bounded bound="4 operands (numeric/non-numeric pattern NNNN); operand conversions: every double" fns=js_op::abstract_max stubs=4 timeout=400 cutdrop=1
    //@ desc="max of Number conversions over 4 operands: Err iff some operand is non-numeric, else exactly the left fold; conversions by contract"
    fold_harness!(k_c10_fold_max_4_NNNN, 4, 2, abstract_max, 15);
    //@ob name=C10.fold.min.1.x harness=k_c10_fold_min_1_x props=C10,C01 tier=thorough strength=bounded bound="1 operands (numeric/non-numeric pattern x); operand conversions: every double" fns=js_op::abstract_min stubs=4 timeout=400 cutdrop=1
    //@ desc="min of Number conversions over 1 operands: Err iff some operand is non-numeric, else exactly the left fold; conversions by contract"
    fold_harness!(k_c10_fold_min_1_x, 1, 3, abstract_min, 0);
    //@ob name=C10.fold.min.1.N harness=k_c10_fold_min_1_N props=C10,C01 tier=quick strength=bounded bound="1 operands (numeric/non-numeric pattern N); operand conversions: every double" fns=js_op::abstract_min stubs=4 timeout=400 cutdrop=1
    //@ desc="min of Number conversions over 1 operands: Err iff some operand is non-numeric, else exactly the left fold; conversions by contract"
    fold_harness!(k_c10_fold_min_1_N, 1, 3, abstract_min, 1);
    //@ob name=C10.fold.min.2.xx harness=k_c10_fold_min_2_xx props=C10,C01 tier=thorough strength=bounded bound="2 operands (numeric/non-numeric pattern xx); operand conversions: every double" fns=js_op::abstract_min stubs=4 timeout=400 cutdrop=1
    //@ desc="min of Number conversions over 2 operands: Err iff some operand is non-numeric, else exactly the left fold; conversions by contract"
    fold_harness!(k_c10_fold_min_2_xx, 2, 3, abstract_min, 0);
    //@ob name=C10.fold.min.2.Nx harness=k_c10_fold_min_2_Nx props=C10,C01 tier=thorough strength=bounded bound="2 operands (numeric/non-numeric pattern Nx); operand conversions: every double" fns=js_op::abstract_min stubs=4 timeout=400 cutdrop=1
    //@ desc="min of Number conversions over 2 operands: Err iff some operand is non-numeric, else exactly the left fold; conversions by contract"
    fold_harness!(k_c10_fold_min_2_Nx, 2, 3, abstract_min, 1);
    //@ob name=C10.fold.min.2.xN harness=k_c10_fold_min_2_xN props=C10,C01 tier=thorough strength=bounded bound="2 operands (numeric/non-numeric pattern xN); operand conversions: every double" fns=js_op::abstract_min stubs=4 timeout=400 cutdrop=1
    //@ desc="min of Number conversions over 2 operands: Err iff some operand is non-numeric, else exactly the left fold; conversions by contract"
    fold_harness!(k_c10_fold_min_2_xN, 2, 3, abstract_min, 2);
    //@ob name=C10.fold.min.2.NN harness=k_c10_fold_min_2_NN props=C10,C01 tier=quick strength=bounded bound="2 operands (numeric/non-numeric pattern NN); operand conversions: every double" fns=js_op::abstract_min stubs=4 timeout=400 cutdrop=1
    //@ desc="min of Number conversions over 2 operands: Err iff some operand is non-numeric, else exactly the left fold; conversions by contract"
    fold_harness!(k_c10_fold_min_2_NN, 2, 3, abstract_min, 3);
    //@ob name=C10.fold.min.3.xxx harness=k_c10_fold_min_3_xxx props=C10,C01 tier=off strength=bounded bound="3 operands (numeric/non-numeric pattern xxx); operand conversions: every double" fns=js_op::abstract_min stubs=4 timeout=400 cutdrop=1
    //@ desc="min of Number conversions over 3 operands: Err iff some operand is non-numeric, else exactly the left fold; conversions by contract"
    fold_harness!(k_c10_fold_min_3_xxx, 3, 3, abstract_min, 0);
    //@ob name=C10.fold.min.3.Nxx harness=k_c10_fold_min_3_Nxx props=C10,C01 tier=off strength=bounded bound="3 operands (numeric/non-numeric pattern Nxx); operand conversions: every double" fns=js_op::abstract_min stubs=4 timeout=400 cutdrop=1
    //@ desc="min of Number conversions over 3 operands: Err iff some operand is non-numeric, else exactly the left fold; conversions by contract"
    fold_harness!(k_c10_fold_min_3_Nxx, 3, 3, abstract_min, 1);
    //@ob name=C10.fold.min.3.xNx harness=k_c10_fold_min_3_xNx props=C10,C01 tier=off strength=bounded bound="3 operands (numeric/non-numeric pattern xNx); operand conversions: every double" fns=js_op::abstract_min stubs=4 timeout=400 cutdrop=1
    //@ desc="min of Number conversions over 3 operands: Err iff some operand is non-numeric, else exactly the left fold; conversions by contract"
    fold_harness!(k_c10_fold_min_3_xNx, 3, 3, abstract_min, 2);
    //@ob name=C10.fold.min.3.NNx harness=k_c10_fold_min_3_NNx props=C10,C01 tier=off strength=bounded bound="3 operands (numeric/non-numeric pattern NNx); operand conversions: every double" fns=js_op::abstract_min stubs=4 timeout=400 cutdrop=1
    //@ desc="min of Number conversions over 3 operands: Err iff some operand is non-numeric, else exactly the left fold; conversions by contract"
    fold_harness!(k_c10_fold_min_3_NNx, 3, 3, abstract_min, 3);
    //@ob name=C10.fold.min.3.xxN harness=k_c10_fold_min_3_xxN props=C10,C01 tier=off strength=bounded bound="3 operands (numeric/non-numeric pattern xxN); operand conversions: every double" fns=js_op::abstract_min stubs=4 timeout=400 cutdrop=1
    //@ desc="min of Number conversions over 3 operands: Err iff some operand is non-numeric, else exactly the left fold; conversions by contract"
    fold_harness!(k_c10_fold_min_3_xxN, 3, 3, abstract_min, 4);
    //@ob name=C10.fold.min.3.NxN harness=k_c10_fold_min_3_NxN props=C10,C01 tier=off strength=bounded bound="3 operands (numeric/non-numeric pattern NxN); operand conversions: every double" fns=js_op::abstract_min stubs=4 timeout=400 cutdrop=1
    //@ desc="min of Number conversions over 3 operands: Err iff some operand is non-numeric, else exactly the left fold; conversions by contract"
    fold_harness!(k_c10_fold_min_3_NxN, 3, 3, abstract_min, 5);
    //@ob name=C10.fold.min.3.xNN harness=k_c10_fold_min_3_xNN props=C10,C01 tier=off strength=bounded bound="3 operands (numeric/non-numeric pattern xNN); operand conversions: every double" fns=js_op::abstract_min stubs=4 timeout=400 cutdrop=1
    //@ desc="min of Number conversions over 3 operands: Err iff some operand is non-numeric, else exactly the left fold; conversions by contract"
    fold_harness!(k_c10_fold_min_3_xNN, 3, 3, abstract_min, 6);
    //@ob name=C10.fold.min.3.NNN harness=k_c10_fold_min_3_NNN props=C10,C01 tier=thorough strength=bounded bound="3 operands (numeric/non-numeric pattern NNN); operand conversions: every double" fns=js_op::abstract_min stubs=4 timeout=400 cutdrop=1
    //@ desc="min of Number conversions over 3 operands: Err iff some operand is non-numeric, else exactly the left fold; conversions by contract"
    fold_harness!(k_c10_fold_min_3_NNN, 3, 3, abstract_min, 7);
    //@ob name=C10.fold.min.4.xxxx harness=k_c10_fold_min_4_xxxx props=C10,C01 tier=off strength=bounded bound="4 operands (numeric/non-numeric pattern xxxx); operand conversions: every double" fns=js_op::abstract_min stubs=4 timeout=400 cutdrop=1
    //@ desc="min of Number conversions over 4 operands: Err iff some operand is non-numeric, else exactly the left fold; conversions by contract"
    fold_harness!(k_c10_fold_min_4_xxxx, 4, 3, abstract_min, 0);
    //@ob name=C10.fold.min.4.Nxxx harness=k_c10_fold_min_4_Nxxx props=C10,C01 tier=off strength=bounded bound="4 operands (numeric/non-numeric pattern Nxxx); operand conversions: every double" fns=js_op::abstract_min stubs=4 timeout=400 cutdrop=1
    //@ desc="min of Number conversions over 4 operands: Err iff some operand is non-numeric, else exactly the left fold; conversions by contract"
    fold_harness!(k_c10_fold_min_4_Nxxx, 4, 3, abstract_min, 1);
    //@ob name=C10.fold.min.4.xNxx harness=k_c10_fold_min_4_xNxx props=C10,C01 tier=off strength=bounded bound="4 operands (numeric/non-numeric pattern xNxx); operand conversions: every double" fns=js_op::abstract_min stubs=4 timeout=400 cutdrop=1
    //@ desc="min of Number conversions over 4 operands: Err iff some operand is non-numeric, else exactly the left fold; conversions by contract"
    fold_harness!(k_c10_fold_min_4_xNxx, 4, 3, abstract_min, 2);
    //@ob name=C10.fold.min.4.NNxx harness=k_c10_fold_min_4_NNxx props=C10,C01 tier=off strength=bounded bound="4 operands (numeric/non-numeric pattern NNxx); operand conversions: every double" fns=js_op::abstract_min stubs=4 timeout=400 cutdrop=1
    //@ desc="min of Number conversions over 4 operands: Err iff some operand is non-numeric, else exactly the left fold; conversions by contract"
    fold_harness!(k_c10_fold_min_4_NNxx, 4, 3, abstract_min, 3);
    //@ob name=C10.fold.min.4.xxNx harness=k_c10_fold_min_4_xxNx props=C10,C01 tier=off strength=bounded bound="4 operands (numeric/non-numeric pattern xxNx); operand conversions: every double" fns=js_op::abstract_min stubs=4 timeout=400 cutdrop=1
    //@ desc="min of Number conversions over 4 operands: Err iff some operand is non-numeric, else exactly the left fold; conversions by contract"
    fold_harness!(k_c10_fold_min_4_xxNx, 4, 3, abstract_min, 4);
    //@ob name=C10.fold.min.4.NxNx harness=k_c10_fold_min_4_NxNx props=C10,C01 tier=off strength=bounded bound="4 operands (numeric/non-numeric pattern NxNx); operand conversions: every double" fns=js_op::abstract_min stubs=4 timeout=400 cutdrop=1
    //@ desc="min of Number conversions over 4 operands: Err iff some operand is non-numeric, else exactly the left fold; conversions by contract"
    fold_harness!(k_c10_fold_min_4_NxNx, 4, 3, abstract_min, 5);
    //@ob name=C10.fold.min.4.xNNx harness=k_c10_fold_min_4_xNNx props=C10,C01 tier=off strength=bounded bound="4 operands (numeric/non-numeric pattern xNNx); operand conversions: every double" fns=js_op::abstract_min stubs=4 timeout=400 cutdrop=1
    //@ desc="min of Number conversions over 4 operands: Err iff some operand is non-numeric, else exactly the left fold; conversions by contract"
    fold_harness!(k_c10_fold_min_4_xNNx, 4, 3, abstract_min, 6);
    //@ob name=C10.fold.min.4.NNNx harness=k_c10_fold_min_4_NNNx props=C10,C01 tier=off strength=bounded bound="4 operands (numeric/non-numeric pattern NNNx); operand conversions: every double" fns=js_op::abstract_min stubs=4 timeout=400 cutdrop=1
    //@ desc="min of Number conversions over 4 operands: Err iff some operand is non-numeric, else exactly the left fold; conversions by contract"
    fold_harness!(k_c10_fold_min_4_NNNx, 4, 3, abstract_min, 7);
    //@ob name=C10.fold.min.4.xxxN harness=k_c10_fold_min_4_xxxN props=C10,C01 tier=off strength=bounded bound="4 operands (numeric/non-numeric pattern xxxN); operand conversions: every double" fns=js_op::abstract_min stubs=4 timeout=400 cutdrop=1
    //@ desc="min of Number conversions over 4 operands: Err iff some operand is non-numeric, else exactly the left fold; conversions by contract"
    fold_harness!(k_c10_fold_min_4_xxxN, 4, 3, abstract_min, 8);
    //@ob name=C10.fold.min.4.NxxN harness=k_c10_fold_min_4_NxxN props=C10,C01 tier=off strength=bounded bound="4 operands (numeric/non-numeric pattern NxxN); operand conversions: every double" fns=js_op::abstract_min stubs=4 timeout=400 cutdrop=1
    //@ desc="min of Number conversions over 4 operands: Err iff some operand is non-numeric, else exactly the left fold; conversions by contract"
    fold_harness!(k_c10_fold_min_4_NxxN, 4, 3, abstract_min, 9);
    //@ob name=C10.fold.min.4.xNxN harness=k_c10_fold_min_4_xNxN props=C10,C01 tier=off strength=bounded bound="4 operands (numeric/non-numeric pattern xNxN); operand conversions: every double" fns=js_op::abstract_min stubs=4 timeout=400 cutdrop=1
    //@ desc="min of Number conversions over 4 operands: Err iff some operand is non-numeric, else exactly the left fold; conversions by contract"
    fold_harness!(k_c10_fold_min_4_xNxN, 4, 3, abstract_min, 10);
    //@ob name=C10.fold.min.4.NNxN harness=k_c10_fold_min_4_NNxN props=C10,C01 tier=off strength=bounded bound="4 operands (numeric/non-numeric pattern NNxN); operand conversions: every double" fns=js_op::abstract_min stubs=4 timeout=400 cutdrop=1
    //@ desc="min of Number conversions over 4 operands: Err iff some operand is non-numeric, else exactly the left fold; conversions by contract"
    fold_harness!(k_c10_fold_min_4_NNxN, 4, 3, abstract_min, 11);
    //@ob name=C10.fold.min.4.xxNN harness=k_c10_fold_min_4_xxNN props=C10,C01 tier=off strength=bounded bound="4 operands (numeric/non-numeric pattern xxNN); operand conversions: every double" fns=js_op::abstract_min stubs=4 timeout=400 cutdrop=1
    //@ desc="min of Number conversions over 4 operands: Err iff some operand is non-numeric, else exactly the left fold; conversions by contract"
    fold_harness!(k_c10_fold_min_4_xxNN, 4, 3, abstract_min, 12);
    //@ob name=C10.fold.min.4.NxNN harness=k_c10_fold_min_4_NxNN props=C10,C01 tier=off strength=bounded bound="4 operands (numeric/non-numeric pattern NxNN); operand conversions: every double" fns=js_op::abstract_min stubs=4 timeout=400 cutdrop=1
    //@ desc="min of Number conversions over 4 operands: Err iff some operand is non-numeric, else exactly the left fold; conversions by contract"
    fold_harness!(k_c10_fold_min_4_NxNN, 4, 3, abstract_min, 13);
    //@ob name=C10.fold.min.4.xNNN harness=k_c10_fold_min_4_xNNN props=C10,C01 tier=off strength=bounded bound="4 operands (numeric/non-numeric pattern xNNN); operand conversions: every double" fns=js_op::abstract_min stubs=4 timeout=400 cutdrop=1
    //@ desc="min of Number conversions over 4 operands: Err iff some operand is non-numeric, else exactly the left fold; conversions by contract"
    fold_harness!(k_c10_fold_min_4_xNNN, 4, 3, abstract_min, 14);
    //@ob name=C10.fold.min.4.NNNN harness=k_c10_fold_min_4_NNNN props=C10,C01 tier=thorough strength=bounded bound="4 operands (numeric/non-numeric pattern NNNN); operand conversions: every double" fns=js_op::abstract_min stubs=4 timeout=400 cutdrop=1
    //@ desc="min of Number conversions over 4 operands: Err iff some operand is non-numeric, else exactly the left fold; conversions by contract"
    fold_harness!(k_c10_fold_min_4_NNNN, 4, 3, abstract_min, 15);
//@END-GENERATED-FOLDS

    // =====================================================================================
    // parse_float dispatch (C10): numbers directly, strings by the prefix scanner, everything else
    // through its string form.
    // =====================================================================================
    pub(crate) static mut PFS_PLAN: [Option<f64>; 8] = [None; 8];
    /// contract stub for `parse_float_string`: planned parseFloat of a known string.
    pub(crate) fn pfs_stub(val: &String) -> Option<f64> {
        let idx = if val == "null" { 4 } else if val == "true" { 5 } else if val == "false" { 6 } else {
            assert!(val.len() == 1, "parse_float_string called on an unexpected string");
            label_idx(val.as_bytes()[0])
        };
        unsafe { PFS_PLAN[idx] }
    }
    pub(crate) fn body_parse_float(k: u8) {
        let mut i = 0;
        while i < 8 {
            let has: bool = kani::any();
            let v: f64 = kani::any();
            unsafe { PFS_PLAN[i] = if has { Some(v) } else { None } };
            i += 1;
        }
        let (a, sa) = match k {
            // true / false are separate harnesses: keeps the string form concrete
            6 => (MD::new(Value::Bool(true)), SV::Bool(true)),
            7 => (MD::new(Value::Bool(false)), SV::Bool(false)),
            _ => mk(k, 0, K_NULL),
        };
        register(&a, &a);
        let r = parse_float(&a);
        kani::cover!(true, "assertions reached");
        let expect = match sa {
            SV::Num(x) => Some(x),
            SV::Str(l) | SV::Obj(l) => unsafe { PFS_PLAN[label_idx(l)] },
            SV::Null => unsafe { PFS_PLAN[4] },
            SV::Bool(b) => unsafe { PFS_PLAN[if b { 5 } else { 6 }] },
        };
        assert!(same_opt_f64(r, expect), "parse_float: number as is; string by parseFloat; anything else by parseFloat of its string form");
    }
    macro_rules! pf_harness {
        ($name:ident, $k:expr) => {
            #[cfg_attr(kani, kani::proof)]
            #[cfg_attr(kani, kani::stub(crate::js_op::parse_float_string, pfs_stub))]
            #[cfg_attr(kani, kani::stub(crate::js_op::to_string, to_string_stub))]
            #[cfg_attr(kani, kani::stub(std::fmt::format, crate::verif_support::fmt_stub))]
            pub(crate) fn $name() {
                body_parse_float($k);
            }
        };
    }
    //@ob name=C10.parse_float.null harness=k_c10_parse_float_null props=C10,C01 strength=complete fns=js_op::parse_float stubs=3
    //@ desc="parse_float(null) == parseFloat(\"null\") (scanner by contract)"
    pf_harness!(k_c10_parse_float_null, K_NULL);
    //@ob name=C10.parse_float.true harness=k_c10_parse_float_true props=C10,C01 strength=complete fns=js_op::parse_float stubs=3
    //@ desc="parse_float(true) == parseFloat(\"true\")"
    pf_harness!(k_c10_parse_float_true, 6);
    //@ob name=C10.parse_float.false harness=k_c10_parse_float_false props=C10,C01 strength=complete fns=js_op::parse_float stubs=3
    //@ desc="parse_float(false) == parseFloat(\"false\")"
    pf_harness!(k_c10_parse_float_false, 7);
    //@ob name=C10.parse_float.num harness=k_c10_parse_float_num props=C10,C01 strength=complete fns=js_op::parse_float stubs=3
    //@ desc="parse_float(number) == the number as a double, every i64/u64/finite f64"
    pf_harness!(k_c10_parse_float_num, K_NUM);
    //@ob name=C10.parse_float.str harness=k_c10_parse_float_str props=C10,C01 strength=complete fns=js_op::parse_float stubs=3
    //@ desc="parse_float(string) == parse_float_string(string)"
    pf_harness!(k_c10_parse_float_str, K_STR);
    //@ob name=C10.parse_float.arr harness=k_c10_parse_float_arr props=C10,C01 strength=complete fns=js_op::parse_float stubs=3
    //@ desc="parse_float(array) == parse_float_string(to_string(array)) ([3] is 3)"
    pf_harness!(k_c10_parse_float_arr, K_ARR);
    //@ob name=C10.parse_float.obj harness=k_c10_parse_float_obj props=C10,C01 strength=complete fns=js_op::parse_float stubs=3
    //@ desc="parse_float(object) == parse_float_string(to_string(object))"
    pf_harness!(k_c10_parse_float_obj, K_OBJ);

    // =====================================================================================
    // abstract_plus (public helper; C01): never panics on numeric primitives.
    // =====================================================================================
    fn mk_numeric_prim(sel: u8) -> MD<Value> {
        match sel {
            0 => MD::new(Value::Null),
            1 => MD::new(Value::Bool(kani::any())),
            _ => MD::new(Value::Number(any_number())),
        }
    }
    fn body_abstract_plus(sa: u8, sb: u8) {
        let a = mk_numeric_prim(sa);
        let b = mk_numeric_prim(sb);
        #[cfg(verif_replay)]
        eprintln!("REPLAY-INPUT: abstract_plus(a, b): a = {}  b = {}", &*a, &*b);
        let r = MD::new(abstract_plus(&a, &b));
        kani::cover!(true, "returned");
        match &*r {
            Value::Number(n) => assert!(n.as_f64().map(|x| x.is_finite()).unwrap_or(false), "abstract_plus: non-finite JSON number"),
            Value::Null => {}
            _ => assert!(false, "abstract_plus on numeric primitives returned a non-number"),
        }
    }
    macro_rules! plus_harness {
        ($name:ident, $sa:expr, $sb:expr) => {
            #[cfg_attr(kani, kani::proof)]
            #[cfg_attr(kani, kani::stub(crate::js_op::to_string, to_string_stub))]
            #[cfg_attr(kani, kani::stub(std::fmt::format, crate::verif_support::fmt_stub))]
            pub(crate) fn $name() {
                body_abstract_plus($sa, $sb);
            }
        };
    }
    //@ob name=C01.abstract_plus.num_num harness=k_c01_abstract_plus_num_num props=C01 strength=complete fns=js_op::abstract_plus stubs=2 replay=generic timeout=200
    //@ desc="abstract_plus(a,b) for every pair of JSON numbers: returns (no unwrap on a non-finite sum such as 1.7e308+1.7e308, no overflow panic); the result is a finite number or null"
    plus_harness!(k_c01_abstract_plus_num_num, 2, 2);
    //@ob name=C01.abstract_plus.null_num harness=k_c01_abstract_plus_null_num props=C01 strength=complete fns=js_op::abstract_plus stubs=2 replay=generic timeout=200
    //@ desc="abstract_plus(null, n) for every JSON number: returns a finite number"
    plus_harness!(k_c01_abstract_plus_null_num, 0, 2);
    //@ob name=C01.abstract_plus.bool_bool harness=k_c01_abstract_plus_bool_bool props=C01 strength=complete fns=js_op::abstract_plus stubs=2 replay=generic timeout=200
    //@ desc="abstract_plus(bool, bool): returns a finite number"
    plus_harness!(k_c01_abstract_plus_bool_bool, 1, 1);

    // =====================================================================================
    // str_to_number (C07 / C09 / C10): JavaScript StringToNumber, with `f64::from_str` by contract.
    // Assumed contract on std (stub): from_str(s) is Ok exactly on Rust's float grammar
    //   [+-]? ( "inf" | "infinity" | "nan" (any case) | digits [. digits*] [exp] | . digits [exp] ),  exp = [eE][+-]?digits
    // and then returns the correctly rounded value - represented here by a planned (arbitrary, non-NaN for
    // numeric spellings) double, because the decimal->binary rounding itself is trusted, not verified.
    // =====================================================================================
    fn is_digit(b: u8) -> bool {
        b >= b'0' && b <= b'9'
    }
    fn lower(b: u8) -> u8 {
        if b >= b'A' && b <= b'Z' { b + 32 } else { b }
    }
    fn eq_ci(s: &[u8], w: &[u8]) -> bool {
        if s.len() != w.len() {
            return false;
        }
        let mut i = 0;
        while i < w.len() {
            if lower(s[i]) != w[i] {
                return false;
            }
            i += 1;
        }
        true
    }
    /// digits [. digits*] [exp] | . digits [exp]   (shared by the Rust and the JS decimal grammars)
    fn is_unsigned_decimal(s: &[u8]) -> bool {
        let n = s.len();
        let mut i = 0;
        let mut int_digits = 0;
        while i < n && is_digit(s[i]) {
            i += 1;
            int_digits += 1;
        }
        let mut frac_digits = 0;
        if i < n && s[i] == b'.' {
            i += 1;
            while i < n && is_digit(s[i]) {
                i += 1;
                frac_digits += 1;
            }
        }
        if int_digits + frac_digits == 0 {
            return false;
        }
        if i < n && (s[i] == b'e' || s[i] == b'E') {
            i += 1;
            if i < n && (s[i] == b'+' || s[i] == b'-') {
                i += 1;
            }
            let mut exp_digits = 0;
            while i < n && is_digit(s[i]) {
                i += 1;
                exp_digits += 1;
            }
            if exp_digits == 0 {
                return false;
            }
        }
        i == n
    }
    fn strip_sign(s: &[u8]) -> &[u8] {
        if s.len() > 0 && (s[0] == b'+' || s[0] == b'-') { &s[1..] } else { s }
    }
    /// 0 = rejected, 1 = numeric, 2 = +inf, 3 = -inf, 4 = nan
    fn rust_float_grammar(s: &[u8]) -> u8 {
        let neg = s.len() > 0 && s[0] == b'-';
        let u = strip_sign(s);
        if eq_ci(u, b"inf") || eq_ci(u, b"infinity") {
            return if neg { 3 } else { 2 };
        }
        if eq_ci(u, b"nan") {
            return 4;
        }
        if is_unsigned_decimal(u) { 1 } else { 0 }
    }
    pub(crate) static mut FS_PLAN: f64 = 0.0;
    pub(crate) static mut FS_CALLS: u32 = 0;
    pub(crate) static mut FS_ARG: [u8; 8] = [0; 8];
    pub(crate) static mut FS_ARG_LEN: usize = 0;
    /// contract stub for `<f64 as FromStr>::from_str`
    pub(crate) fn from_str_stub(s: &str) -> Result<f64, std::num::ParseFloatError> {
        let b = s.as_bytes();
        unsafe {
            FS_CALLS += 1;
            FS_ARG_LEN = b.len();
            let mut i = 0;
            while i < b.len() && i < 8 {
                FS_ARG[i] = b[i];
                i += 1;
            }
        }
        match rust_float_grammar(b) {
            0 => Err("x".parse::<f32>().unwrap_err()),
            1 => Ok(unsafe { FS_PLAN }),
            2 => Ok(f64::INFINITY),
            3 => Ok(f64::NEG_INFINITY),
            _ => Ok(f64::NAN),
        }
    }
    fn is_js_space(b: u8) -> bool {
        // the ASCII part of StrWhiteSpaceChar: TAB, LF, VT, FF, CR, SP
        b == 9 || b == 10 || b == 11 || b == 12 || b == 13 || b == 32
    }
    fn radix_digit(b: u8, radix: u32) -> Option<u32> {
        let v = if is_digit(b) {
            (b - b'0') as u32
        } else if lower(b) >= b'a' && lower(b) <= b'f' {
            (lower(b) - b'a') as u32 + 10
        } else {
            return None;
        };
        if v < radix { Some(v) } else { None }
    }
    /// ECMA-262 StringToNumber on an ASCII string: Err(()) = NaN; Ok(None) = decimal literal whose value is
    /// from_str of the trimmed literal; Ok(Some(v)) = a value fixed by the grammar itself ("" => 0, Infinity, radix)
    fn js_string_to_number(s: &[u8]) -> Result<Option<f64>, ()> {
        let mut lo = 0;
        let mut hi = s.len();
        while lo < hi && is_js_space(s[lo]) {
            lo += 1;
        }
        while hi > lo && is_js_space(s[hi - 1]) {
            hi -= 1;
        }
        let t = &s[lo..hi];
        if t.len() == 0 {
            return Ok(Some(0.0));
        }
        if t.len() >= 2 && t[0] == b'0' && (lower(t[1]) == b'x' || lower(t[1]) == b'o' || lower(t[1]) == b'b') {
            let radix = match lower(t[1]) {
                b'x' => 16,
                b'o' => 8,
                _ => 2,
            };
            if t.len() == 2 {
                return Err(());
            }
            let mut v: f64 = 0.0;
            let mut i = 2;
            while i < t.len() {
                match radix_digit(t[i], radix) {
                    Some(d) => v = v * (radix as f64) + d as f64,
                    None => return Err(()),
                }
                i += 1;
            }
            return Ok(Some(v));
        }
        let neg = t[0] == b'-';
        let u = strip_sign(t);
        if u.len() == 8 && u[0] == b'I' && u[1] == b'n' && u[2] == b'f' && u[3] == b'i' && u[4] == b'n' && u[5] == b'i' && u[6] == b't' && u[7] == b'y' {
            return Ok(Some(if neg { f64::NEG_INFINITY } else { f64::INFINITY }));
        }
        if is_unsigned_decimal(u) { Ok(None) } else { Err(()) }
    }
    pub(crate) fn body_str_to_number<const N: usize>(alphabet: &[u8]) {
        let mut s = String::with_capacity(N + 1);
        let mut j = 0;
        while j < N {
            s.push('a');
            j += 1;
        }
        let mut bytes = [0u8; N];
        let mut i = 0;
        while i < N {
            let sel: usize = kani::any();
            kani::assume(sel < alphabet.len());
            bytes[i] = alphabet[sel];
            unsafe { s.as_bytes_mut()[i] = bytes[i] };
            i += 1;
        }
        let plan: f64 = kani::any();
        kani::assume(!plan.is_nan());
        unsafe { FS_PLAN = plan };
        let s = MD::new(s);
        #[cfg(verif_replay)]
        eprintln!("REPLAY-INPUT: str_to_number({:?})", s.as_str());
        let r = str_to_number(s.as_str());
        kani::cover!(true, "returned");
        #[cfg(kani)]
        match js_string_to_number(&bytes) {
            Err(()) => assert!(r.is_none() || r.unwrap().is_nan(), "str_to_number accepts a string JavaScript's StringToNumber rejects (NaN)"),
            Ok(Some(v)) => assert!(r == Some(v), "str_to_number differs from StringToNumber on \"\" / whitespace / Infinity / 0x 0o 0b literal"),
            Ok(None) => {
                assert!(r == Some(plan), "str_to_number rejects (or does not convert with from_str) a decimal literal StringToNumber accepts");
            }
        }
        // replay (real from_str, no plan): compare with Rust's own parser on the JS-normalised literal
        #[cfg(verif_replay)]
        match js_string_to_number(&bytes) {
            Err(()) => assert!(r.is_none() || r.unwrap().is_nan(), "str_to_number accepts a string JavaScript's StringToNumber rejects (NaN)"),
            Ok(Some(v)) => assert!(r == Some(v), "str_to_number differs from StringToNumber on \"\" / whitespace / Infinity / 0x 0o 0b literal"),
            Ok(None) => {
                let t = s.as_str().trim_matches(|c: char| (c as u32) < 128 && is_js_space(c as u8));
                assert!(r == t.parse::<f64>().ok() && r.is_some(), "str_to_number rejects a decimal literal StringToNumber accepts");
            }
        }
    }
    const ALPHA_NUM: [u8; 12] = [b'0', b'1', b'9', b'.', b'-', b'+', b'e', b'E', b' ', b'\t', b'x', b'a'];
    const ALPHA_WORD: [u8; 12] = [b'i', b'n', b'f', b'I', b'N', b'a', b't', b'y', b'1', b'-', b' ', b'A'];
    const ALPHA_RADIX: [u8; 11] = [b'0', b'x', b'X', b'b', b'o', b'1', b'7', b'f', b'-', b'g', b'+'];
    macro_rules! s2n_harness {
        ($name:ident, $n:expr, $alpha:expr) => {
            #[cfg_attr(kani, kani::proof)]
            #[cfg_attr(kani, kani::unwind(12))]
            #[cfg_attr(kani, kani::stub(<f64 as std::str::FromStr>::from_str, from_str_stub))]
            pub(crate) fn $name() {
                body_str_to_number::<$n>(&$alpha);
            }
        };
    }
    /// a symbolic choice among concrete candidate spellings (for the 8/9-character `Infinity` family)
    pub(crate) fn body_str_to_number_words() {
        const WORDS: [&[u8; 9]; 8] = [b"Infinity ", b"-Infinity", b"+Infinity", b"infinity ", b"INFINITY ", b" Infinity", b"Infinit1 ", b"-infinity"];
        let sel: usize = kani::any();
        kani::assume(sel < 8);
        let mut s = String::with_capacity(10);
        let mut j = 0;
        while j < 9 {
            s.push('a');
            j += 1;
        }
        let mut bytes = [0u8; 9];
        let mut i = 0;
        while i < 9 {
            bytes[i] = WORDS[sel][i];
            unsafe { s.as_bytes_mut()[i] = bytes[i] };
            i += 1;
        }
        unsafe { FS_PLAN = 1.0 };
        let s = MD::new(s);
        #[cfg(verif_replay)]
        eprintln!("REPLAY-INPUT: str_to_number({:?})", s.as_str());
        let r = str_to_number(s.as_str());
        kani::cover!(true, "returned");
        match js_string_to_number(&bytes) {
            Err(()) => assert!(r.is_none() || r.unwrap().is_nan(), "str_to_number accepts a spelling of infinity other than `Infinity`"),
            Ok(Some(v)) => assert!(r == Some(v), "str_to_number rejects `Infinity` / `-Infinity` / `+Infinity` (or gives the wrong sign)"),
            Ok(None) => assert!(false, "spec: these candidates are never decimal literals"),
        }
    }
    //@ob name=C07.str_to_number.infinity props=C07,C09,C10,C01 strength=bounded bound="the spellings Infinity, -Infinity, +Infinity, infinity, INFINITY, -infinity, Infinit1 with trailing/leading space" fns=js_op::str_to_number stubs=1 replay=generic timeout=400
    //@ desc="only `Infinity` (optionally signed, surrounded by whitespace) names infinity; case variants and near-misses are not numbers"
    #[cfg_attr(kani, kani::proof)]
    #[cfg_attr(kani, kani::unwind(12))]
    #[cfg_attr(kani, kani::stub(<f64 as std::str::FromStr>::from_str, from_str_stub))]
    pub(crate) fn k_c07_s2n_infinity() {
        body_str_to_number_words();
    }
    /// JavaScript parseFloat on ASCII bytes: skip leading whitespace, then the LONGEST prefix that is a
    /// StrDecimalLiteral ([+-]? digits[.digits][exp] | [+-]? .digits[exp]); None when there is none.
    /// Written as "try every prefix, longest first" - deliberately not a single-pass scanner.
    fn js_parse_float_prefix(s: &[u8]) -> Option<(usize, usize)> {
        let mut lo = 0;
        while lo < s.len() && is_js_space(s[lo]) {
            lo += 1;
        }
        let mut hi = s.len();
        while hi > lo {
            if is_unsigned_decimal(strip_sign(&s[lo..hi])) {
                return Some((lo, hi));
            }
            hi -= 1;
        }
        None
    }
    pub(crate) fn body_parse_float_string<const N: usize>(alphabet: &[u8]) {
        let mut s = String::with_capacity(N + 1);
        let mut j = 0;
        while j < N {
            s.push('a');
            j += 1;
        }
        let mut bytes = [0u8; N];
        let mut i = 0;
        while i < N {
            let sel: usize = kani::any();
            kani::assume(sel < alphabet.len());
            bytes[i] = alphabet[sel];
            unsafe { s.as_bytes_mut()[i] = bytes[i] };
            i += 1;
        }
        let plan: f64 = kani::any();
        kani::assume(!plan.is_nan());
        unsafe { FS_PLAN = plan };
        let s = MD::new(s);
        #[cfg(verif_replay)]
        eprintln!("REPLAY-INPUT: parse_float(\"{}\")", s.as_str());
        let r = parse_float_string(&s);
        kani::cover!(true, "returned");
        match js_parse_float_prefix(&bytes) {
            None => assert!(r.is_none(), "parse_float_string: a number although the string has no numeric prefix (JavaScript parseFloat gives NaN)"),
            Some((lo, hi)) => {
                #[cfg(kani)]
                {
                    assert!(r == Some(plan), "parse_float_string: error although the string has a numeric prefix (\"12px\" is 12, \"1-2\" is 1, \"1e+\" is 1)");
                    // the prefix handed to the float parser must denote the same decimal literal
                    let n = unsafe { FS_ARG_LEN };
                    assert!(n == hi - lo, "parse_float_string: not the longest numeric prefix");
                    let mut k = 0;
                    while k < n {
                        assert!(unsafe { FS_ARG[k] } == bytes[lo + k], "parse_float_string: converted something other than the numeric prefix");
                        k += 1;
                    }
                }
                #[cfg(verif_replay)]
                {
                    let expect = std::str::from_utf8(&bytes[lo..hi]).unwrap().parse::<f64>().ok();
                    assert!(r == expect && r.is_some(), "parse_float_string: error (or a different value) although the string has a numeric prefix");
                }
            }
        }
    }
    const ALPHA_PF: [u8; 11] = [b'0', b'1', b'9', b'.', b'-', b'+', b'e', b'E', b' ', b'p', b'x'];
    macro_rules! pfs_harness {
        ($name:ident, $n:expr) => {
            #[cfg_attr(kani, kani::proof)]
            #[cfg_attr(kani, kani::unwind(20))]
            #[cfg_attr(kani, kani::stub(<f64 as std::str::FromStr>::from_str, from_str_stub))]
            pub(crate) fn $name() {
                body_parse_float_string::<$n>(&ALPHA_PF);
            }
        };
    }
    //@ob name=C10.parse_float_string.1 harness=k_c10_pfs_1 props=C10 strength=bounded bound="every 1-character string over {0 1 9 . - + e E space p x}" fns=js_op::parse_float_string stubs=1 replay=generic timeout=400
    //@ desc="parse_float_string(s) == JavaScript parseFloat(s): the longest decimal-literal prefix after leading whitespace, by from_str (assumed contract); None when there is none"
    pfs_harness!(k_c10_pfs_1, 1);
    //@ob name=C10.parse_float_string.2 harness=k_c10_pfs_2 props=C10 strength=bounded bound="every 2-character string over {0 1 9 . - + e E space p x}" fns=js_op::parse_float_string stubs=1 replay=generic timeout=400
    //@ desc="parse_float_string on all 2-character strings of the alphabet"
    pfs_harness!(k_c10_pfs_2, 2);
    //@ob name=C10.parse_float_string.3 harness=k_c10_pfs_3 props=C10 strength=bounded bound="every 3-character string over {0 1 9 . - + e E space p x}" fns=js_op::parse_float_string stubs=1 replay=generic timeout=600
    //@ desc="parse_float_string on all 3-character strings of the alphabet (\"1-2\", \"1e+\", \"1.e\", \" .5\", ...)"
    pfs_harness!(k_c10_pfs_3, 3);
    //@ob name=C10.parse_float_string.4 harness=k_c10_pfs_4 props=C10 tier=thorough strength=bounded bound="every 4-character string over {0 1 9 . - + e E space p x}" fns=js_op::parse_float_string stubs=1 replay=generic timeout=900
    //@ desc="parse_float_string on all 4-character strings of the alphabet (\"1e5.\", \"12px\", \"1e+1\", ...)"
    pfs_harness!(k_c10_pfs_4, 4);

    const ALPHA_RADIX_SMALL: [u8; 6] = [b'0', b'x', b'b', b'1', b'+', b'g'];
    //@ob name=C07.str_to_number.radix4 harness=k_c07_s2n_radix4 props=C07,C09,C10 strength=bounded bound="every 4-character string over {0 x b 1 + g} (e.g. \"0x+1\", \"0b11\", \"0x1g\")" fns=js_op::str_to_number stubs=1 replay=generic timeout=400
    //@ desc="radix literals: digits only after the prefix (no sign), every digit valid for the radix"
    s2n_harness!(k_c07_s2n_radix4, 4, ALPHA_RADIX_SMALL);
//@GENERATED-S2N
    //@ob name=C07.str_to_number.num.0 harness=k_c07_s2n_num_0 props=C07,C09,C10 tier=quick strength=bounded bound="every string of exactly 0 characters over the alphabet {0 1 9 . - + e E space tab x a}" fns=js_op::str_to_number stubs=1 replay=generic timeout=300
    //@ desc="str_to_number(s) == ECMAScript StringToNumber(s): surrounding whitespace ignored, \"\" is 0, only `Infinity` spelled that way, 0x/0o/0b literals honoured (unsigned), decimal literals by from_str (assumed contract), anything else non-numeric"
    s2n_harness!(k_c07_s2n_num_0, 0, ALPHA_NUM);
    //@ob name=C07.str_to_number.num.1 harness=k_c07_s2n_num_1 props=C07,C09,C10 tier=quick strength=bounded bound="every string of exactly 1 characters over the alphabet {0 1 9 . - + e E space tab x a}" fns=js_op::str_to_number stubs=1 replay=generic timeout=300
    //@ desc="str_to_number(s) == ECMAScript StringToNumber(s): surrounding whitespace ignored, \"\" is 0, only `Infinity` spelled that way, 0x/0o/0b literals honoured (unsigned), decimal literals by from_str (assumed contract), anything else non-numeric"
    s2n_harness!(k_c07_s2n_num_1, 1, ALPHA_NUM);
    //@ob name=C07.str_to_number.num.2 harness=k_c07_s2n_num_2 props=C07,C09,C10 tier=quick strength=bounded bound="every string of exactly 2 characters over the alphabet {0 1 9 . - + e E space tab x a}" fns=js_op::str_to_number stubs=1 replay=generic timeout=300
    //@ desc="str_to_number(s) == ECMAScript StringToNumber(s): surrounding whitespace ignored, \"\" is 0, only `Infinity` spelled that way, 0x/0o/0b literals honoured (unsigned), decimal literals by from_str (assumed contract), anything else non-numeric"
    s2n_harness!(k_c07_s2n_num_2, 2, ALPHA_NUM);
    //@ob name=C07.str_to_number.num.3 harness=k_c07_s2n_num_3 props=C07,C09,C10 tier=thorough strength=bounded bound="every string of exactly 3 characters over the alphabet {0 1 9 . - + e E space tab x a}" fns=js_op::str_to_number stubs=1 replay=generic timeout=300
    //@ desc="str_to_number(s) == ECMAScript StringToNumber(s): surrounding whitespace ignored, \"\" is 0, only `Infinity` spelled that way, 0x/0o/0b literals honoured (unsigned), decimal literals by from_str (assumed contract), anything else non-numeric"
    s2n_harness!(k_c07_s2n_num_3, 3, ALPHA_NUM);
    //@ob name=C07.str_to_number.num.4 harness=k_c07_s2n_num_4 props=C07,C09,C10 tier=thorough strength=bounded bound="every string of exactly 4 characters over the alphabet {0 1 9 . - + e E space tab x a}" fns=js_op::str_to_number stubs=1 replay=generic timeout=300
    //@ desc="str_to_number(s) == ECMAScript StringToNumber(s): surrounding whitespace ignored, \"\" is 0, only `Infinity` spelled that way, 0x/0o/0b literals honoured (unsigned), decimal literals by from_str (assumed contract), anything else non-numeric"
    s2n_harness!(k_c07_s2n_num_4, 4, ALPHA_NUM);
    //@ob name=C07.str_to_number.num.5 harness=k_c07_s2n_num_5 props=C07,C09,C10 tier=thorough strength=bounded bound="every string of exactly 5 characters over the alphabet {0 1 9 . - + e E space tab x a}" fns=js_op::str_to_number stubs=1 replay=generic timeout=300
    //@ desc="str_to_number(s) == ECMAScript StringToNumber(s): surrounding whitespace ignored, \"\" is 0, only `Infinity` spelled that way, 0x/0o/0b literals honoured (unsigned), decimal literals by from_str (assumed contract), anything else non-numeric"
    s2n_harness!(k_c07_s2n_num_5, 5, ALPHA_NUM);
    //@ob name=C07.str_to_number.word.0 harness=k_c07_s2n_word_0 props=C07,C09,C10 tier=quick strength=bounded bound="every string of exactly 0 characters over the alphabet {i n f I N a t y 1 - space A}" fns=js_op::str_to_number stubs=1 replay=generic timeout=300
    //@ desc="str_to_number(s) == ECMAScript StringToNumber(s): surrounding whitespace ignored, \"\" is 0, only `Infinity` spelled that way, 0x/0o/0b literals honoured (unsigned), decimal literals by from_str (assumed contract), anything else non-numeric"
    s2n_harness!(k_c07_s2n_word_0, 0, ALPHA_WORD);
    //@ob name=C07.str_to_number.word.1 harness=k_c07_s2n_word_1 props=C07,C09,C10 tier=quick strength=bounded bound="every string of exactly 1 characters over the alphabet {i n f I N a t y 1 - space A}" fns=js_op::str_to_number stubs=1 replay=generic timeout=300
    //@ desc="str_to_number(s) == ECMAScript StringToNumber(s): surrounding whitespace ignored, \"\" is 0, only `Infinity` spelled that way, 0x/0o/0b literals honoured (unsigned), decimal literals by from_str (assumed contract), anything else non-numeric"
    s2n_harness!(k_c07_s2n_word_1, 1, ALPHA_WORD);
    //@ob name=C07.str_to_number.word.2 harness=k_c07_s2n_word_2 props=C07,C09,C10 tier=quick strength=bounded bound="every string of exactly 2 characters over the alphabet {i n f I N a t y 1 - space A}" fns=js_op::str_to_number stubs=1 replay=generic timeout=300
    //@ desc="str_to_number(s) == ECMAScript StringToNumber(s): surrounding whitespace ignored, \"\" is 0, only `Infinity` spelled that way, 0x/0o/0b literals honoured (unsigned), decimal literals by from_str (assumed contract), anything else non-numeric"
    s2n_harness!(k_c07_s2n_word_2, 2, ALPHA_WORD);
    //@ob name=C07.str_to_number.word.3 harness=k_c07_s2n_word_3 props=C07,C09,C10 tier=thorough strength=bounded bound="every string of exactly 3 characters over the alphabet {i n f I N a t y 1 - space A}" fns=js_op::str_to_number stubs=1 replay=generic timeout=300
    //@ desc="str_to_number(s) == ECMAScript StringToNumber(s): surrounding whitespace ignored, \"\" is 0, only `Infinity` spelled that way, 0x/0o/0b literals honoured (unsigned), decimal literals by from_str (assumed contract), anything else non-numeric"
    s2n_harness!(k_c07_s2n_word_3, 3, ALPHA_WORD);
    //@ob name=C07.str_to_number.word.4 harness=k_c07_s2n_word_4 props=C07,C09,C10 tier=thorough strength=bounded bound="every string of exactly 4 characters over the alphabet {i n f I N a t y 1 - space A}" fns=js_op::str_to_number stubs=1 replay=generic timeout=300
    //@ desc="str_to_number(s) == ECMAScript StringToNumber(s): surrounding whitespace ignored, \"\" is 0, only `Infinity` spelled that way, 0x/0o/0b literals honoured (unsigned), decimal literals by from_str (assumed contract), anything else non-numeric"
    s2n_harness!(k_c07_s2n_word_4, 4, ALPHA_WORD);
    //@ob name=C07.str_to_number.word.5 harness=k_c07_s2n_word_5 props=C07,C09,C10 tier=thorough strength=bounded bound="every string of exactly 5 characters over the alphabet {i n f I N a t y 1 - space A}" fns=js_op::str_to_number stubs=1 replay=generic timeout=300
    //@ desc="str_to_number(s) == ECMAScript StringToNumber(s): surrounding whitespace ignored, \"\" is 0, only `Infinity` spelled that way, 0x/0o/0b literals honoured (unsigned), decimal literals by from_str (assumed contract), anything else non-numeric"
    s2n_harness!(k_c07_s2n_word_5, 5, ALPHA_WORD);
    //@ob name=C07.str_to_number.radix.0 harness=k_c07_s2n_radix_0 props=C07,C09,C10 tier=quick strength=bounded bound="every string of exactly 0 characters over the alphabet {0 x X b o 1 7 f - g}" fns=js_op::str_to_number stubs=1 replay=generic timeout=300
    //@ desc="str_to_number(s) == ECMAScript StringToNumber(s): surrounding whitespace ignored, \"\" is 0, only `Infinity` spelled that way, 0x/0o/0b literals honoured (unsigned), decimal literals by from_str (assumed contract), anything else non-numeric"
    s2n_harness!(k_c07_s2n_radix_0, 0, ALPHA_RADIX);
    //@ob name=C07.str_to_number.radix.1 harness=k_c07_s2n_radix_1 props=C07,C09,C10 tier=quick strength=bounded bound="every string of exactly 1 characters over the alphabet {0 x X b o 1 7 f - g}" fns=js_op::str_to_number stubs=1 replay=generic timeout=300
    //@ desc="str_to_number(s) == ECMAScript StringToNumber(s): surrounding whitespace ignored, \"\" is 0, only `Infinity` spelled that way, 0x/0o/0b literals honoured (unsigned), decimal literals by from_str (assumed contract), anything else non-numeric"
    s2n_harness!(k_c07_s2n_radix_1, 1, ALPHA_RADIX);
    //@ob name=C07.str_to_number.radix.2 harness=k_c07_s2n_radix_2 props=C07,C09,C10 tier=quick strength=bounded bound="every string of exactly 2 characters over the alphabet {0 x X b o 1 7 f - g}" fns=js_op::str_to_number stubs=1 replay=generic timeout=300
    //@ desc="str_to_number(s) == ECMAScript StringToNumber(s): surrounding whitespace ignored, \"\" is 0, only `Infinity` spelled that way, 0x/0o/0b literals honoured (unsigned), decimal literals by from_str (assumed contract), anything else non-numeric"
    s2n_harness!(k_c07_s2n_radix_2, 2, ALPHA_RADIX);
    //@ob name=C07.str_to_number.radix.3 harness=k_c07_s2n_radix_3 props=C07,C09,C10 tier=thorough strength=bounded bound="every string of exactly 3 characters over the alphabet {0 x X b o 1 7 f - g}" fns=js_op::str_to_number stubs=1 replay=generic timeout=300
    //@ desc="str_to_number(s) == ECMAScript StringToNumber(s): surrounding whitespace ignored, \"\" is 0, only `Infinity` spelled that way, 0x/0o/0b literals honoured (unsigned), decimal literals by from_str (assumed contract), anything else non-numeric"
    s2n_harness!(k_c07_s2n_radix_3, 3, ALPHA_RADIX);
    //@ob name=C07.str_to_number.radix.4 harness=k_c07_s2n_radix_4 props=C07,C09,C10 tier=thorough strength=bounded bound="every string of exactly 4 characters over the alphabet {0 x X b o 1 7 f - g}" fns=js_op::str_to_number stubs=1 replay=generic timeout=300
    //@ desc="str_to_number(s) == ECMAScript StringToNumber(s): surrounding whitespace ignored, \"\" is 0, only `Infinity` spelled that way, 0x/0o/0b literals honoured (unsigned), decimal literals by from_str (assumed contract), anything else non-numeric"
    s2n_harness!(k_c07_s2n_radix_4, 4, ALPHA_RADIX);
    //@ob name=C07.str_to_number.radix.5 harness=k_c07_s2n_radix_5 props=C07,C09,C10 tier=thorough strength=bounded bound="every string of exactly 5 characters over the alphabet {0 x X b o 1 7 f - g}" fns=js_op::str_to_number stubs=1 replay=generic timeout=300
    //@ desc="str_to_number(s) == ECMAScript StringToNumber(s): surrounding whitespace ignored, \"\" is 0, only `Infinity` spelled that way, 0x/0o/0b literals honoured (unsigned), decimal literals by from_str (assumed contract), anything else non-numeric"
    s2n_harness!(k_c07_s2n_radix_5, 5, ALPHA_RADIX);
//@END-GENERATED-S2N

    /// contract stub for `parse_float_string` in the comparison harnesses: parseFloat of a string is NOT its
    /// Number() conversion - an independent arbitrary value
    pub(crate) fn pfs_any_stub(_val: &String) -> Option<f64> {
        if kani::any() { Some(kani::any()) } else { None }
    }
    macro_rules! pair_harness {
        ($name:ident, $body:ident, $ka:expr, $kb:expr) => {
            #[cfg_attr(kani, kani::proof)]
            #[cfg_attr(kani, kani::stub(crate::js_op::str_to_number, s2n_stub))]
            #[cfg_attr(kani, kani::stub(crate::js_op::parse_float_string, pfs_any_stub))]
            #[cfg_attr(kani, kani::stub(crate::js_op::to_string, to_string_stub))]
            #[cfg_attr(kani, kani::stub(std::fmt::format, crate::verif_support::fmt_stub))]
            pub(crate) fn $name() {
                $body($ka, $kb);
            }
        };
    }
//@GENERATED-PAIRS
    //@ob name=C07.abstract_eq.null_null harness=k_c07_eq_null_null props=C07,C01 strength=complete fns=js_op::abstract_eq,js_op::abstract_ne stubs=4 timeout=240 replay=generic
    //@ desc="abstract_eq(NULL,NULL) == ES 7.2.14 for every value of these kinds (all i64/u64/finite f64, all bools; string->number and container->string by contract), symmetric, abstract_ne is its negation, no panic"
    pair_harness!(k_c07_eq_null_null, body_abstract_eq, K_NULL, K_NULL);
    //@ob name=C08.strict_eq.null_null harness=k_c08_seq_null_null props=C08,C01 strength=complete fns=js_op::strict_eq,js_op::strict_ne stubs=4 timeout=240 replay=generic
    //@ desc="strict_eq(NULL,NULL) (distinct instances) == same primitive type and value; symmetric; strict_ne negation; === implies =="
    pair_harness!(k_c08_seq_null_null, body_strict_eq, K_NULL, K_NULL);
    //@ob name=C09.rel.null_null harness=k_c09_rel_null_null props=C09 strength=complete fns=js_op::abstract_lt,js_op::abstract_lte,js_op::abstract_gt,js_op::abstract_gte stubs=4 timeout=240 replay=generic
    //@ desc="lt/lte(NULL,NULL) == ES relational comparison on converted operands (NaN => false); gt(b,a)==lt(a,b); gte(b,a)==lte(a,b)"
    pair_harness!(k_c09_rel_null_null, body_rel, K_NULL, K_NULL);
    //@ob name=C07.abstract_eq.null_bool harness=k_c07_eq_null_bool props=C07,C01 strength=complete fns=js_op::abstract_eq,js_op::abstract_ne stubs=4 timeout=240 replay=generic
    //@ desc="abstract_eq(NULL,BOOL) == ES 7.2.14 for every value of these kinds (all i64/u64/finite f64, all bools; string->number and container->string by contract), symmetric, abstract_ne is its negation, no panic"
    pair_harness!(k_c07_eq_null_bool, body_abstract_eq, K_NULL, K_BOOL);
    //@ob name=C08.strict_eq.null_bool harness=k_c08_seq_null_bool props=C08,C01 strength=complete fns=js_op::strict_eq,js_op::strict_ne stubs=4 timeout=240 replay=generic
    //@ desc="strict_eq(NULL,BOOL) (distinct instances) == same primitive type and value; symmetric; strict_ne negation; === implies =="
    pair_harness!(k_c08_seq_null_bool, body_strict_eq, K_NULL, K_BOOL);
    //@ob name=C09.rel.null_bool harness=k_c09_rel_null_bool props=C09 strength=complete fns=js_op::abstract_lt,js_op::abstract_lte,js_op::abstract_gt,js_op::abstract_gte stubs=4 timeout=240 replay=generic
    //@ desc="lt/lte(NULL,BOOL) == ES relational comparison on converted operands (NaN => false); gt(b,a)==lt(a,b); gte(b,a)==lte(a,b)"
    pair_harness!(k_c09_rel_null_bool, body_rel, K_NULL, K_BOOL);
    //@ob name=C07.abstract_eq.null_num harness=k_c07_eq_null_num props=C07,C01 strength=complete fns=js_op::abstract_eq,js_op::abstract_ne stubs=4 timeout=240 replay=generic
    //@ desc="abstract_eq(NULL,NUM) == ES 7.2.14 for every value of these kinds (all i64/u64/finite f64, all bools; string->number and container->string by contract), symmetric, abstract_ne is its negation, no panic"
    pair_harness!(k_c07_eq_null_num, body_abstract_eq, K_NULL, K_NUM);
    //@ob name=C08.strict_eq.null_num harness=k_c08_seq_null_num props=C08,C01 strength=complete fns=js_op::strict_eq,js_op::strict_ne stubs=4 timeout=240 replay=generic
    //@ desc="strict_eq(NULL,NUM) (distinct instances) == same primitive type and value; symmetric; strict_ne negation; === implies =="
    pair_harness!(k_c08_seq_null_num, body_strict_eq, K_NULL, K_NUM);
    //@ob name=C09.rel.null_num harness=k_c09_rel_null_num props=C09 strength=complete fns=js_op::abstract_lt,js_op::abstract_lte,js_op::abstract_gt,js_op::abstract_gte stubs=4 timeout=240 replay=generic
    //@ desc="lt/lte(NULL,NUM) == ES relational comparison on converted operands (NaN => false); gt(b,a)==lt(a,b); gte(b,a)==lte(a,b)"
    pair_harness!(k_c09_rel_null_num, body_rel, K_NULL, K_NUM);
    //@ob name=C07.abstract_eq.null_str harness=k_c07_eq_null_str props=C07,C01 strength=complete fns=js_op::abstract_eq,js_op::abstract_ne stubs=4 timeout=240 replay=generic
    //@ desc="abstract_eq(NULL,STR) == ES 7.2.14 for every value of these kinds (all i64/u64/finite f64, all bools; string->number and container->string by contract), symmetric, abstract_ne is its negation, no panic"
    pair_harness!(k_c07_eq_null_str, body_abstract_eq, K_NULL, K_STR);
    //@ob name=C08.strict_eq.null_str harness=k_c08_seq_null_str props=C08,C01 strength=complete fns=js_op::strict_eq,js_op::strict_ne stubs=4 timeout=240 replay=generic
    //@ desc="strict_eq(NULL,STR) (distinct instances) == same primitive type and value; symmetric; strict_ne negation; === implies =="
    pair_harness!(k_c08_seq_null_str, body_strict_eq, K_NULL, K_STR);
    //@ob name=C09.rel.null_str harness=k_c09_rel_null_str props=C09 strength=complete fns=js_op::abstract_lt,js_op::abstract_lte,js_op::abstract_gt,js_op::abstract_gte stubs=4 timeout=240 replay=generic
    //@ desc="lt/lte(NULL,STR) == ES relational comparison on converted operands (NaN => false); gt(b,a)==lt(a,b); gte(b,a)==lte(a,b)"
    pair_harness!(k_c09_rel_null_str, body_rel, K_NULL, K_STR);
    //@ob name=C07.abstract_eq.null_arr harness=k_c07_eq_null_arr props=C07,C01 strength=complete fns=js_op::abstract_eq,js_op::abstract_ne stubs=4 timeout=240 replay=generic
    //@ desc="abstract_eq(NULL,ARR) == ES 7.2.14 for every value of these kinds (all i64/u64/finite f64, all bools; string->number and container->string by contract), symmetric, abstract_ne is its negation, no panic"
    pair_harness!(k_c07_eq_null_arr, body_abstract_eq, K_NULL, K_ARR);
    //@ob name=C08.strict_eq.null_arr harness=k_c08_seq_null_arr props=C08,C01 strength=complete fns=js_op::strict_eq,js_op::strict_ne stubs=4 timeout=240 replay=generic
    //@ desc="strict_eq(NULL,ARR) (distinct instances) == same primitive type and value; symmetric; strict_ne negation; === implies =="
    pair_harness!(k_c08_seq_null_arr, body_strict_eq, K_NULL, K_ARR);
    //@ob name=C09.rel.null_arr harness=k_c09_rel_null_arr props=C09 strength=complete fns=js_op::abstract_lt,js_op::abstract_lte,js_op::abstract_gt,js_op::abstract_gte stubs=4 timeout=240 replay=generic
    //@ desc="lt/lte(NULL,ARR) == ES relational comparison on converted operands (NaN => false); gt(b,a)==lt(a,b); gte(b,a)==lte(a,b)"
    pair_harness!(k_c09_rel_null_arr, body_rel, K_NULL, K_ARR);
    //@ob name=C07.abstract_eq.null_obj harness=k_c07_eq_null_obj props=C07,C01 strength=complete fns=js_op::abstract_eq,js_op::abstract_ne stubs=4 timeout=240 replay=generic
    //@ desc="abstract_eq(NULL,OBJ) == ES 7.2.14 for every value of these kinds (all i64/u64/finite f64, all bools; string->number and container->string by contract), symmetric, abstract_ne is its negation, no panic"
    pair_harness!(k_c07_eq_null_obj, body_abstract_eq, K_NULL, K_OBJ);
    //@ob name=C08.strict_eq.null_obj harness=k_c08_seq_null_obj props=C08,C01 strength=complete fns=js_op::strict_eq,js_op::strict_ne stubs=4 timeout=240 replay=generic
    //@ desc="strict_eq(NULL,OBJ) (distinct instances) == same primitive type and value; symmetric; strict_ne negation; === implies =="
    pair_harness!(k_c08_seq_null_obj, body_strict_eq, K_NULL, K_OBJ);
    //@ob name=C09.rel.null_obj harness=k_c09_rel_null_obj props=C09 strength=complete fns=js_op::abstract_lt,js_op::abstract_lte,js_op::abstract_gt,js_op::abstract_gte stubs=4 timeout=240 replay=generic
    //@ desc="lt/lte(NULL,OBJ) == ES relational comparison on converted operands (NaN => false); gt(b,a)==lt(a,b); gte(b,a)==lte(a,b)"
    pair_harness!(k_c09_rel_null_obj, body_rel, K_NULL, K_OBJ);
    //@ob name=C09.rel.bool_null harness=k_c09_rel_bool_null props=C09 strength=complete fns=js_op::abstract_lt,js_op::abstract_lte,js_op::abstract_gt,js_op::abstract_gte stubs=4 timeout=240 replay=generic
    //@ desc="lt/lte(BOOL,NULL) == ES relational comparison on converted operands (NaN => false); gt(b,a)==lt(a,b); gte(b,a)==lte(a,b)"
    pair_harness!(k_c09_rel_bool_null, body_rel, K_BOOL, K_NULL);
    //@ob name=C07.abstract_eq.bool_bool harness=k_c07_eq_bool_bool props=C07,C01 strength=complete fns=js_op::abstract_eq,js_op::abstract_ne stubs=4 timeout=240 replay=generic
    //@ desc="abstract_eq(BOOL,BOOL) == ES 7.2.14 for every value of these kinds (all i64/u64/finite f64, all bools; string->number and container->string by contract), symmetric, abstract_ne is its negation, no panic"
    pair_harness!(k_c07_eq_bool_bool, body_abstract_eq, K_BOOL, K_BOOL);
    //@ob name=C08.strict_eq.bool_bool harness=k_c08_seq_bool_bool props=C08,C01 strength=complete fns=js_op::strict_eq,js_op::strict_ne stubs=4 timeout=240 replay=generic
    //@ desc="strict_eq(BOOL,BOOL) (distinct instances) == same primitive type and value; symmetric; strict_ne negation; === implies =="
    pair_harness!(k_c08_seq_bool_bool, body_strict_eq, K_BOOL, K_BOOL);
    //@ob name=C09.rel.bool_bool harness=k_c09_rel_bool_bool props=C09 strength=complete fns=js_op::abstract_lt,js_op::abstract_lte,js_op::abstract_gt,js_op::abstract_gte stubs=4 timeout=240 replay=generic
    //@ desc="lt/lte(BOOL,BOOL) == ES relational comparison on converted operands (NaN => false); gt(b,a)==lt(a,b); gte(b,a)==lte(a,b)"
    pair_harness!(k_c09_rel_bool_bool, body_rel, K_BOOL, K_BOOL);
    //@ob name=C07.abstract_eq.bool_num harness=k_c07_eq_bool_num props=C07,C01 strength=complete fns=js_op::abstract_eq,js_op::abstract_ne stubs=4 timeout=240 replay=generic
    //@ desc="abstract_eq(BOOL,NUM) == ES 7.2.14 for every value of these kinds (all i64/u64/finite f64, all bools; string->number and container->string by contract), symmetric, abstract_ne is its negation, no panic"
    pair_harness!(k_c07_eq_bool_num, body_abstract_eq, K_BOOL, K_NUM);
    //@ob name=C08.strict_eq.bool_num harness=k_c08_seq_bool_num props=C08,C01 strength=complete fns=js_op::strict_eq,js_op::strict_ne stubs=4 timeout=240 replay=generic
    //@ desc="strict_eq(BOOL,NUM) (distinct instances) == same primitive type and value; symmetric; strict_ne negation; === implies =="
    pair_harness!(k_c08_seq_bool_num, body_strict_eq, K_BOOL, K_NUM);
    //@ob name=C09.rel.bool_num harness=k_c09_rel_bool_num props=C09 strength=complete fns=js_op::abstract_lt,js_op::abstract_lte,js_op::abstract_gt,js_op::abstract_gte stubs=4 timeout=240 replay=generic
    //@ desc="lt/lte(BOOL,NUM) == ES relational comparison on converted operands (NaN => false); gt(b,a)==lt(a,b); gte(b,a)==lte(a,b)"
    pair_harness!(k_c09_rel_bool_num, body_rel, K_BOOL, K_NUM);
    //@ob name=C07.abstract_eq.bool_str harness=k_c07_eq_bool_str props=C07,C01 strength=complete fns=js_op::abstract_eq,js_op::abstract_ne stubs=4 timeout=240 replay=generic
    //@ desc="abstract_eq(BOOL,STR) == ES 7.2.14 for every value of these kinds (all i64/u64/finite f64, all bools; string->number and container->string by contract), symmetric, abstract_ne is its negation, no panic"
    pair_harness!(k_c07_eq_bool_str, body_abstract_eq, K_BOOL, K_STR);
    //@ob name=C08.strict_eq.bool_str harness=k_c08_seq_bool_str props=C08,C01 strength=complete fns=js_op::strict_eq,js_op::strict_ne stubs=4 timeout=240 replay=generic
    //@ desc="strict_eq(BOOL,STR) (distinct instances) == same primitive type and value; symmetric; strict_ne negation; === implies =="
    pair_harness!(k_c08_seq_bool_str, body_strict_eq, K_BOOL, K_STR);
    //@ob name=C09.rel.bool_str harness=k_c09_rel_bool_str props=C09 strength=complete fns=js_op::abstract_lt,js_op::abstract_lte,js_op::abstract_gt,js_op::abstract_gte stubs=4 timeout=240 replay=generic
    //@ desc="lt/lte(BOOL,STR) == ES relational comparison on converted operands (NaN => false); gt(b,a)==lt(a,b); gte(b,a)==lte(a,b)"
    pair_harness!(k_c09_rel_bool_str, body_rel, K_BOOL, K_STR);
    //@ob name=C07.abstract_eq.bool_arr harness=k_c07_eq_bool_arr props=C07,C01 strength=complete fns=js_op::abstract_eq,js_op::abstract_ne stubs=4 timeout=240 replay=generic
    //@ desc="abstract_eq(BOOL,ARR) == ES 7.2.14 for every value of these kinds (all i64/u64/finite f64, all bools; string->number and container->string by contract), symmetric, abstract_ne is its negation, no panic"
    pair_harness!(k_c07_eq_bool_arr, body_abstract_eq, K_BOOL, K_ARR);
    //@ob name=C08.strict_eq.bool_arr harness=k_c08_seq_bool_arr props=C08,C01 strength=complete fns=js_op::strict_eq,js_op::strict_ne stubs=4 timeout=240 replay=generic
    //@ desc="strict_eq(BOOL,ARR) (distinct instances) == same primitive type and value; symmetric; strict_ne negation; === implies =="
    pair_harness!(k_c08_seq_bool_arr, body_strict_eq, K_BOOL, K_ARR);
    //@ob name=C09.rel.bool_arr harness=k_c09_rel_bool_arr props=C09 strength=complete fns=js_op::abstract_lt,js_op::abstract_lte,js_op::abstract_gt,js_op::abstract_gte stubs=4 timeout=240 replay=generic
    //@ desc="lt/lte(BOOL,ARR) == ES relational comparison on converted operands (NaN => false); gt(b,a)==lt(a,b); gte(b,a)==lte(a,b)"
    pair_harness!(k_c09_rel_bool_arr, body_rel, K_BOOL, K_ARR);
    //@ob name=C07.abstract_eq.bool_obj harness=k_c07_eq_bool_obj props=C07,C01 strength=complete fns=js_op::abstract_eq,js_op::abstract_ne stubs=4 timeout=240 replay=generic
    //@ desc="abstract_eq(BOOL,OBJ) == ES 7.2.14 for every value of these kinds (all i64/u64/finite f64, all bools; string->number and container->string by contract), symmetric, abstract_ne is its negation, no panic"
    pair_harness!(k_c07_eq_bool_obj, body_abstract_eq, K_BOOL, K_OBJ);
    //@ob name=C08.strict_eq.bool_obj harness=k_c08_seq_bool_obj props=C08,C01 strength=complete fns=js_op::strict_eq,js_op::strict_ne stubs=4 timeout=240 replay=generic
    //@ desc="strict_eq(BOOL,OBJ) (distinct instances) == same primitive type and value; symmetric; strict_ne negation; === implies =="
    pair_harness!(k_c08_seq_bool_obj, body_strict_eq, K_BOOL, K_OBJ);
    //@ob name=C09.rel.bool_obj harness=k_c09_rel_bool_obj props=C09 strength=complete fns=js_op::abstract_lt,js_op::abstract_lte,js_op::abstract_gt,js_op::abstract_gte stubs=4 timeout=240 replay=generic
    //@ desc="lt/lte(BOOL,OBJ) == ES relational comparison on converted operands (NaN => false); gt(b,a)==lt(a,b); gte(b,a)==lte(a,b)"
    pair_harness!(k_c09_rel_bool_obj, body_rel, K_BOOL, K_OBJ);
    //@ob name=C09.rel.num_null harness=k_c09_rel_num_null props=C09 strength=complete fns=js_op::abstract_lt,js_op::abstract_lte,js_op::abstract_gt,js_op::abstract_gte stubs=4 timeout=240 replay=generic
    //@ desc="lt/lte(NUM,NULL) == ES relational comparison on converted operands (NaN => false); gt(b,a)==lt(a,b); gte(b,a)==lte(a,b)"
    pair_harness!(k_c09_rel_num_null, body_rel, K_NUM, K_NULL);
    //@ob name=C09.rel.num_bool harness=k_c09_rel_num_bool props=C09 strength=complete fns=js_op::abstract_lt,js_op::abstract_lte,js_op::abstract_gt,js_op::abstract_gte stubs=4 timeout=240 replay=generic
    //@ desc="lt/lte(NUM,BOOL) == ES relational comparison on converted operands (NaN => false); gt(b,a)==lt(a,b); gte(b,a)==lte(a,b)"
    pair_harness!(k_c09_rel_num_bool, body_rel, K_NUM, K_BOOL);
    //@ob name=C07.abstract_eq.num_num harness=k_c07_eq_num_num props=C07,C01 strength=complete fns=js_op::abstract_eq,js_op::abstract_ne stubs=4 timeout=240 replay=generic
    //@ desc="abstract_eq(NUM,NUM) == ES 7.2.14 for every value of these kinds (all i64/u64/finite f64, all bools; string->number and container->string by contract), symmetric, abstract_ne is its negation, no panic"
    pair_harness!(k_c07_eq_num_num, body_abstract_eq, K_NUM, K_NUM);
    //@ob name=C08.strict_eq.num_num harness=k_c08_seq_num_num props=C08,C01 strength=complete fns=js_op::strict_eq,js_op::strict_ne stubs=4 timeout=240 replay=generic
    //@ desc="strict_eq(NUM,NUM) (distinct instances) == same primitive type and value; symmetric; strict_ne negation; === implies =="
    pair_harness!(k_c08_seq_num_num, body_strict_eq, K_NUM, K_NUM);
    //@ob name=C09.rel.num_num harness=k_c09_rel_num_num props=C09 strength=complete fns=js_op::abstract_lt,js_op::abstract_lte,js_op::abstract_gt,js_op::abstract_gte stubs=4 timeout=240 replay=generic
    //@ desc="lt/lte(NUM,NUM) == ES relational comparison on converted operands (NaN => false); gt(b,a)==lt(a,b); gte(b,a)==lte(a,b)"
    pair_harness!(k_c09_rel_num_num, body_rel, K_NUM, K_NUM);
    //@ob name=C07.abstract_eq.num_str harness=k_c07_eq_num_str props=C07,C01 strength=complete fns=js_op::abstract_eq,js_op::abstract_ne stubs=4 timeout=240 replay=generic
    //@ desc="abstract_eq(NUM,STR) == ES 7.2.14 for every value of these kinds (all i64/u64/finite f64, all bools; string->number and container->string by contract), symmetric, abstract_ne is its negation, no panic"
    pair_harness!(k_c07_eq_num_str, body_abstract_eq, K_NUM, K_STR);
    //@ob name=C08.strict_eq.num_str harness=k_c08_seq_num_str props=C08,C01 strength=complete fns=js_op::strict_eq,js_op::strict_ne stubs=4 timeout=240 replay=generic
    //@ desc="strict_eq(NUM,STR) (distinct instances) == same primitive type and value; symmetric; strict_ne negation; === implies =="
    pair_harness!(k_c08_seq_num_str, body_strict_eq, K_NUM, K_STR);
    //@ob name=C09.rel.num_str harness=k_c09_rel_num_str props=C09 strength=complete fns=js_op::abstract_lt,js_op::abstract_lte,js_op::abstract_gt,js_op::abstract_gte stubs=4 timeout=240 replay=generic
    //@ desc="lt/lte(NUM,STR) == ES relational comparison on converted operands (NaN => false); gt(b,a)==lt(a,b); gte(b,a)==lte(a,b)"
    pair_harness!(k_c09_rel_num_str, body_rel, K_NUM, K_STR);
    //@ob name=C07.abstract_eq.num_arr harness=k_c07_eq_num_arr props=C07,C01 strength=complete fns=js_op::abstract_eq,js_op::abstract_ne stubs=4 timeout=240 replay=generic
    //@ desc="abstract_eq(NUM,ARR) == ES 7.2.14 for every value of these kinds (all i64/u64/finite f64, all bools; string->number and container->string by contract), symmetric, abstract_ne is its negation, no panic"
    pair_harness!(k_c07_eq_num_arr, body_abstract_eq, K_NUM, K_ARR);
    //@ob name=C08.strict_eq.num_arr harness=k_c08_seq_num_arr props=C08,C01 strength=complete fns=js_op::strict_eq,js_op::strict_ne stubs=4 timeout=240 replay=generic
    //@ desc="strict_eq(NUM,ARR) (distinct instances) == same primitive type and value; symmetric; strict_ne negation; === implies =="
    pair_harness!(k_c08_seq_num_arr, body_strict_eq, K_NUM, K_ARR);
    //@ob name=C09.rel.num_arr harness=k_c09_rel_num_arr props=C09 strength=complete fns=js_op::abstract_lt,js_op::abstract_lte,js_op::abstract_gt,js_op::abstract_gte stubs=4 timeout=240 replay=generic
    //@ desc="lt/lte(NUM,ARR) == ES relational comparison on converted operands (NaN => false); gt(b,a)==lt(a,b); gte(b,a)==lte(a,b)"
    pair_harness!(k_c09_rel_num_arr, body_rel, K_NUM, K_ARR);
    //@ob name=C07.abstract_eq.num_obj harness=k_c07_eq_num_obj props=C07,C01 strength=complete fns=js_op::abstract_eq,js_op::abstract_ne stubs=4 timeout=240 replay=generic
    //@ desc="abstract_eq(NUM,OBJ) == ES 7.2.14 for every value of these kinds (all i64/u64/finite f64, all bools; string->number and container->string by contract), symmetric, abstract_ne is its negation, no panic"
    pair_harness!(k_c07_eq_num_obj, body_abstract_eq, K_NUM, K_OBJ);
    //@ob name=C08.strict_eq.num_obj harness=k_c08_seq_num_obj props=C08,C01 strength=complete fns=js_op::strict_eq,js_op::strict_ne stubs=4 timeout=240 replay=generic
    //@ desc="strict_eq(NUM,OBJ) (distinct instances) == same primitive type and value; symmetric; strict_ne negation; === implies =="
    pair_harness!(k_c08_seq_num_obj, body_strict_eq, K_NUM, K_OBJ);
    //@ob name=C09.rel.num_obj harness=k_c09_rel_num_obj props=C09 strength=complete fns=js_op::abstract_lt,js_op::abstract_lte,js_op::abstract_gt,js_op::abstract_gte stubs=4 timeout=240 replay=generic
    //@ desc="lt/lte(NUM,OBJ) == ES relational comparison on converted operands (NaN => false); gt(b,a)==lt(a,b); gte(b,a)==lte(a,b)"
    pair_harness!(k_c09_rel_num_obj, body_rel, K_NUM, K_OBJ);
    //@ob name=C09.rel.str_null harness=k_c09_rel_str_null props=C09 strength=complete fns=js_op::abstract_lt,js_op::abstract_lte,js_op::abstract_gt,js_op::abstract_gte stubs=4 timeout=240 replay=generic
    //@ desc="lt/lte(STR,NULL) == ES relational comparison on converted operands (NaN => false); gt(b,a)==lt(a,b); gte(b,a)==lte(a,b)"
    pair_harness!(k_c09_rel_str_null, body_rel, K_STR, K_NULL);
    //@ob name=C09.rel.str_bool harness=k_c09_rel_str_bool props=C09 strength=complete fns=js_op::abstract_lt,js_op::abstract_lte,js_op::abstract_gt,js_op::abstract_gte stubs=4 timeout=240 replay=generic
    //@ desc="lt/lte(STR,BOOL) == ES relational comparison on converted operands (NaN => false); gt(b,a)==lt(a,b); gte(b,a)==lte(a,b)"
    pair_harness!(k_c09_rel_str_bool, body_rel, K_STR, K_BOOL);
    //@ob name=C09.rel.str_num harness=k_c09_rel_str_num props=C09 strength=complete fns=js_op::abstract_lt,js_op::abstract_lte,js_op::abstract_gt,js_op::abstract_gte stubs=4 timeout=240 replay=generic
    //@ desc="lt/lte(STR,NUM) == ES relational comparison on converted operands (NaN => false); gt(b,a)==lt(a,b); gte(b,a)==lte(a,b)"
    pair_harness!(k_c09_rel_str_num, body_rel, K_STR, K_NUM);
    //@ob name=C07.abstract_eq.str_str harness=k_c07_eq_str_str props=C07,C01 strength=bounded bound="string / container-string-form contents are 1-character labels" fns=js_op::abstract_eq,js_op::abstract_ne stubs=4 timeout=240 replay=generic
    //@ desc="abstract_eq(STR,STR) == ES 7.2.14 for every value of these kinds (all i64/u64/finite f64, all bools; string->number and container->string by contract), symmetric, abstract_ne is its negation, no panic"
    pair_harness!(k_c07_eq_str_str, body_abstract_eq, K_STR, K_STR);
    //@ob name=C08.strict_eq.str_str harness=k_c08_seq_str_str props=C08,C01 strength=bounded bound="string / container-string-form contents are 1-character labels" fns=js_op::strict_eq,js_op::strict_ne stubs=4 timeout=240 replay=generic
    //@ desc="strict_eq(STR,STR) (distinct instances) == same primitive type and value; symmetric; strict_ne negation; === implies =="
    pair_harness!(k_c08_seq_str_str, body_strict_eq, K_STR, K_STR);
    //@ob name=C09.rel.str_str harness=k_c09_rel_str_str props=C09 strength=bounded bound="string / container-string-form contents are 1-character labels" fns=js_op::abstract_lt,js_op::abstract_lte,js_op::abstract_gt,js_op::abstract_gte stubs=4 timeout=240 replay=generic
    //@ desc="lt/lte(STR,STR) == ES relational comparison on converted operands (NaN => false); gt(b,a)==lt(a,b); gte(b,a)==lte(a,b)"
    pair_harness!(k_c09_rel_str_str, body_rel, K_STR, K_STR);
    //@ob name=C07.abstract_eq.str_arr harness=k_c07_eq_str_arr props=C07,C01 strength=bounded bound="string / container-string-form contents are 1-character labels" fns=js_op::abstract_eq,js_op::abstract_ne stubs=4 timeout=240 replay=generic
    //@ desc="abstract_eq(STR,ARR) == ES 7.2.14 for every value of these kinds (all i64/u64/finite f64, all bools; string->number and container->string by contract), symmetric, abstract_ne is its negation, no panic"
    pair_harness!(k_c07_eq_str_arr, body_abstract_eq, K_STR, K_ARR);
    //@ob name=C08.strict_eq.str_arr harness=k_c08_seq_str_arr props=C08,C01 strength=bounded bound="string / container-string-form contents are 1-character labels" fns=js_op::strict_eq,js_op::strict_ne stubs=4 timeout=240 replay=generic
    //@ desc="strict_eq(STR,ARR) (distinct instances) == same primitive type and value; symmetric; strict_ne negation; === implies =="
    pair_harness!(k_c08_seq_str_arr, body_strict_eq, K_STR, K_ARR);
    //@ob name=C09.rel.str_arr harness=k_c09_rel_str_arr props=C09 strength=bounded bound="string / container-string-form contents are 1-character labels" fns=js_op::abstract_lt,js_op::abstract_lte,js_op::abstract_gt,js_op::abstract_gte stubs=4 timeout=240 replay=generic
    //@ desc="lt/lte(STR,ARR) == ES relational comparison on converted operands (NaN => false); gt(b,a)==lt(a,b); gte(b,a)==lte(a,b)"
    pair_harness!(k_c09_rel_str_arr, body_rel, K_STR, K_ARR);
    //@ob name=C07.abstract_eq.str_obj harness=k_c07_eq_str_obj props=C07,C01 strength=bounded bound="string / container-string-form contents are 1-character labels" fns=js_op::abstract_eq,js_op::abstract_ne stubs=4 timeout=240 replay=generic
    //@ desc="abstract_eq(STR,OBJ) == ES 7.2.14 for every value of these kinds (all i64/u64/finite f64, all bools; string->number and container->string by contract), symmetric, abstract_ne is its negation, no panic"
    pair_harness!(k_c07_eq_str_obj, body_abstract_eq, K_STR, K_OBJ);
    //@ob name=C08.strict_eq.str_obj harness=k_c08_seq_str_obj props=C08,C01 strength=bounded bound="string / container-string-form contents are 1-character labels" fns=js_op::strict_eq,js_op::strict_ne stubs=4 timeout=240 replay=generic
    //@ desc="strict_eq(STR,OBJ) (distinct instances) == same primitive type and value; symmetric; strict_ne negation; === implies =="
    pair_harness!(k_c08_seq_str_obj, body_strict_eq, K_STR, K_OBJ);
    //@ob name=C09.rel.str_obj harness=k_c09_rel_str_obj props=C09 strength=bounded bound="string / container-string-form contents are 1-character labels" fns=js_op::abstract_lt,js_op::abstract_lte,js_op::abstract_gt,js_op::abstract_gte stubs=4 timeout=240 replay=generic
    //@ desc="lt/lte(STR,OBJ) == ES relational comparison on converted operands (NaN => false); gt(b,a)==lt(a,b); gte(b,a)==lte(a,b)"
    pair_harness!(k_c09_rel_str_obj, body_rel, K_STR, K_OBJ);
    //@ob name=C09.rel.arr_null harness=k_c09_rel_arr_null props=C09 strength=complete fns=js_op::abstract_lt,js_op::abstract_lte,js_op::abstract_gt,js_op::abstract_gte stubs=4 timeout=240 replay=generic
    //@ desc="lt/lte(ARR,NULL) == ES relational comparison on converted operands (NaN => false); gt(b,a)==lt(a,b); gte(b,a)==lte(a,b)"
    pair_harness!(k_c09_rel_arr_null, body_rel, K_ARR, K_NULL);
    //@ob name=C09.rel.arr_bool harness=k_c09_rel_arr_bool props=C09 strength=complete fns=js_op::abstract_lt,js_op::abstract_lte,js_op::abstract_gt,js_op::abstract_gte stubs=4 timeout=240 replay=generic
    //@ desc="lt/lte(ARR,BOOL) == ES relational comparison on converted operands (NaN => false); gt(b,a)==lt(a,b); gte(b,a)==lte(a,b)"
    pair_harness!(k_c09_rel_arr_bool, body_rel, K_ARR, K_BOOL);
    //@ob name=C09.rel.arr_num harness=k_c09_rel_arr_num props=C09 strength=complete fns=js_op::abstract_lt,js_op::abstract_lte,js_op::abstract_gt,js_op::abstract_gte stubs=4 timeout=240 replay=generic
    //@ desc="lt/lte(ARR,NUM) == ES relational comparison on converted operands (NaN => false); gt(b,a)==lt(a,b); gte(b,a)==lte(a,b)"
    pair_harness!(k_c09_rel_arr_num, body_rel, K_ARR, K_NUM);
    //@ob name=C09.rel.arr_str harness=k_c09_rel_arr_str props=C09 strength=bounded bound="string / container-string-form contents are 1-character labels" fns=js_op::abstract_lt,js_op::abstract_lte,js_op::abstract_gt,js_op::abstract_gte stubs=4 timeout=240 replay=generic
    //@ desc="lt/lte(ARR,STR) == ES relational comparison on converted operands (NaN => false); gt(b,a)==lt(a,b); gte(b,a)==lte(a,b)"
    pair_harness!(k_c09_rel_arr_str, body_rel, K_ARR, K_STR);
    //@ob name=C07.abstract_eq.arr_arr harness=k_c07_eq_arr_arr props=C07,C01 strength=bounded bound="string / container-string-form contents are 1-character labels" fns=js_op::abstract_eq,js_op::abstract_ne stubs=4 timeout=240 replay=generic
    //@ desc="abstract_eq(ARR,ARR) == ES 7.2.14 for every value of these kinds (all i64/u64/finite f64, all bools; string->number and container->string by contract), symmetric, abstract_ne is its negation, no panic"
    pair_harness!(k_c07_eq_arr_arr, body_abstract_eq, K_ARR, K_ARR);
    //@ob name=C08.strict_eq.arr_arr harness=k_c08_seq_arr_arr props=C08,C01 strength=bounded bound="string / container-string-form contents are 1-character labels" fns=js_op::strict_eq,js_op::strict_ne stubs=4 timeout=240 replay=generic
    //@ desc="strict_eq(ARR,ARR) (distinct instances) == same primitive type and value; symmetric; strict_ne negation; === implies =="
    pair_harness!(k_c08_seq_arr_arr, body_strict_eq, K_ARR, K_ARR);
    //@ob name=C09.rel.arr_arr harness=k_c09_rel_arr_arr props=C09 strength=bounded bound="string / container-string-form contents are 1-character labels" fns=js_op::abstract_lt,js_op::abstract_lte,js_op::abstract_gt,js_op::abstract_gte stubs=4 timeout=240 replay=generic
    //@ desc="lt/lte(ARR,ARR) == ES relational comparison on converted operands (NaN => false); gt(b,a)==lt(a,b); gte(b,a)==lte(a,b)"
    pair_harness!(k_c09_rel_arr_arr, body_rel, K_ARR, K_ARR);
    //@ob name=C07.abstract_eq.arr_obj harness=k_c07_eq_arr_obj props=C07,C01 strength=bounded bound="string / container-string-form contents are 1-character labels" fns=js_op::abstract_eq,js_op::abstract_ne stubs=4 timeout=240 replay=generic
    //@ desc="abstract_eq(ARR,OBJ) == ES 7.2.14 for every value of these kinds (all i64/u64/finite f64, all bools; string->number and container->string by contract), symmetric, abstract_ne is its negation, no panic"
    pair_harness!(k_c07_eq_arr_obj, body_abstract_eq, K_ARR, K_OBJ);
    //@ob name=C08.strict_eq.arr_obj harness=k_c08_seq_arr_obj props=C08,C01 strength=bounded bound="string / container-string-form contents are 1-character labels" fns=js_op::strict_eq,js_op::strict_ne stubs=4 timeout=240 replay=generic
    //@ desc="strict_eq(ARR,OBJ) (distinct instances) == same primitive type and value; symmetric; strict_ne negation; === implies =="
    pair_harness!(k_c08_seq_arr_obj, body_strict_eq, K_ARR, K_OBJ);
    //@ob name=C09.rel.arr_obj harness=k_c09_rel_arr_obj props=C09 strength=bounded bound="string / container-string-form contents are 1-character labels" fns=js_op::abstract_lt,js_op::abstract_lte,js_op::abstract_gt,js_op::abstract_gte stubs=4 timeout=240 replay=generic
    //@ desc="lt/lte(ARR,OBJ) == ES relational comparison on converted operands (NaN => false); gt(b,a)==lt(a,b); gte(b,a)==lte(a,b)"
    pair_harness!(k_c09_rel_arr_obj, body_rel, K_ARR, K_OBJ);
    //@ob name=C09.rel.obj_null harness=k_c09_rel_obj_null props=C09 strength=complete fns=js_op::abstract_lt,js_op::abstract_lte,js_op::abstract_gt,js_op::abstract_gte stubs=4 timeout=240 replay=generic
    //@ desc="lt/lte(OBJ,NULL) == ES relational comparison on converted operands (NaN => false); gt(b,a)==lt(a,b); gte(b,a)==lte(a,b)"
    pair_harness!(k_c09_rel_obj_null, body_rel, K_OBJ, K_NULL);
    //@ob name=C09.rel.obj_bool harness=k_c09_rel_obj_bool props=C09 strength=complete fns=js_op::abstract_lt,js_op::abstract_lte,js_op::abstract_gt,js_op::abstract_gte stubs=4 timeout=240 replay=generic
    //@ desc="lt/lte(OBJ,BOOL) == ES relational comparison on converted operands (NaN => false); gt(b,a)==lt(a,b); gte(b,a)==lte(a,b)"
    pair_harness!(k_c09_rel_obj_bool, body_rel, K_OBJ, K_BOOL);
    //@ob name=C09.rel.obj_num harness=k_c09_rel_obj_num props=C09 strength=complete fns=js_op::abstract_lt,js_op::abstract_lte,js_op::abstract_gt,js_op::abstract_gte stubs=4 timeout=240 replay=generic
    //@ desc="lt/lte(OBJ,NUM) == ES relational comparison on converted operands (NaN => false); gt(b,a)==lt(a,b); gte(b,a)==lte(a,b)"
    pair_harness!(k_c09_rel_obj_num, body_rel, K_OBJ, K_NUM);
    //@ob name=C09.rel.obj_str harness=k_c09_rel_obj_str props=C09 strength=bounded bound="string / container-string-form contents are 1-character labels" fns=js_op::abstract_lt,js_op::abstract_lte,js_op::abstract_gt,js_op::abstract_gte stubs=4 timeout=240 replay=generic
    //@ desc="lt/lte(OBJ,STR) == ES relational comparison on converted operands (NaN => false); gt(b,a)==lt(a,b); gte(b,a)==lte(a,b)"
    pair_harness!(k_c09_rel_obj_str, body_rel, K_OBJ, K_STR);
    //@ob name=C09.rel.obj_arr harness=k_c09_rel_obj_arr props=C09 strength=bounded bound="string / container-string-form contents are 1-character labels" fns=js_op::abstract_lt,js_op::abstract_lte,js_op::abstract_gt,js_op::abstract_gte stubs=4 timeout=240 replay=generic
    //@ desc="lt/lte(OBJ,ARR) == ES relational comparison on converted operands (NaN => false); gt(b,a)==lt(a,b); gte(b,a)==lte(a,b)"
    pair_harness!(k_c09_rel_obj_arr, body_rel, K_OBJ, K_ARR);
    //@ob name=C07.abstract_eq.obj_obj harness=k_c07_eq_obj_obj props=C07,C01 strength=bounded bound="string / container-string-form contents are 1-character labels" fns=js_op::abstract_eq,js_op::abstract_ne stubs=4 timeout=240 replay=generic
    //@ desc="abstract_eq(OBJ,OBJ) == ES 7.2.14 for every value of these kinds (all i64/u64/finite f64, all bools; string->number and container->string by contract), symmetric, abstract_ne is its negation, no panic"
    pair_harness!(k_c07_eq_obj_obj, body_abstract_eq, K_OBJ, K_OBJ);
    //@ob name=C08.strict_eq.obj_obj harness=k_c08_seq_obj_obj props=C08,C01 strength=bounded bound="string / container-string-form contents are 1-character labels" fns=js_op::strict_eq,js_op::strict_ne stubs=4 timeout=240 replay=generic
    //@ desc="strict_eq(OBJ,OBJ) (distinct instances) == same primitive type and value; symmetric; strict_ne negation; === implies =="
    pair_harness!(k_c08_seq_obj_obj, body_strict_eq, K_OBJ, K_OBJ);
    //@ob name=C09.rel.obj_obj harness=k_c09_rel_obj_obj props=C09 strength=bounded bound="string / container-string-form contents are 1-character labels" fns=js_op::abstract_lt,js_op::abstract_lte,js_op::abstract_gt,js_op::abstract_gte stubs=4 timeout=240 replay=generic
    //@ desc="lt/lte(OBJ,OBJ) == ES relational comparison on converted operands (NaN => false); gt(b,a)==lt(a,b); gte(b,a)==lte(a,b)"
    pair_harness!(k_c09_rel_obj_obj, body_rel, K_OBJ, K_OBJ);
    //@END-GENERATED-PAIRS
}

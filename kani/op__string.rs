#[cfg(any(kani, verif_replay))]
#[allow(dead_code, unused_imports, unused_variables, unused_macros, unused_mut, static_mut_refs)]
pub(crate) mod verif_string {
    use super::*;
    #[cfg(verif_replay)]
    use crate::verif_support::shim as kani;
    use crate::verif_support::*;
    use serde_json::Number;

    /// C16: substr counts in Unicode characters; out-of-range values clamp to the string.
    /// Computed in i128 so that no i64 extreme can overflow the spec itself.
    pub(crate) fn spec_substr_range(n: usize, start: i64, len: Option<i64>) -> (usize, usize) {
        let n = n as i128;
        let st = start as i128;
        let s = if st >= 0 { if st < n { st } else { n } } else if n + st > 0 { n + st } else { 0 };
        let e = match len {
            None => n,
            Some(l) => {
                let l = l as i128;
                if l >= 0 {
                    if s + l < n { s + l } else { n }
                } else if n + l > 0 {
                    n + l
                } else {
                    0
                }
            }
        };
        if e <= s { (s as usize, s as usize) } else { (s as usize, e as usize) }
    }

    fn expect_substr(chars: &[char], start: i64, len: Option<i64>) -> String {
        let (s, e) = spec_substr_range(chars.len(), start, len);
        let mut out = String::new();
        let mut i = s;
        while i < e {
            out.push(chars[i]);
            i += 1;
        }
        out
    }

    /// one concrete string shape, one (start, len) pair: result must be the character slice.
    fn check_one(text: &str, chars: &[char], start: i64, len: Option<i64>) {
        // built char by char into a pre-sized buffer: no memcpy / realloc, so CBMC keeps the bytes concrete
        let mut st = String::with_capacity(16);
        let mut ci = 0;
        while ci < chars.len() {
            st.push(chars[ci]);
            ci += 1;
        }
        let sv = MD::new(Value::String(st));
        let iv = MD::new(Value::Number(Number::from(start)));
        let lv = MD::new(Value::Number(Number::from(len.unwrap_or(0))));
        let mut items: Vec<&Value> = Vec::with_capacity(3);
        items.push(&*sv);
        items.push(&*iv);
        if len.is_some() {
            items.push(&*lv);
        }
        let items = MD::new(items);
        #[cfg(verif_replay)]
        eprintln!("REPLAY-INPUT: substr({:?}, {}, {:?})", text, start, len);
        let r = MD::new(substr(&items));
        match &*r {
            Ok(Value::String(s)) => {
                let e = expect_substr(chars, start, len);
                assert!(*s == e, "substr: result is not the character slice the statement describes");
            }
            _ => assert!(false, "substr on (string, integer[, integer]) must return a string"),
        }
    }

}

#[cfg(any(kani, verif_replay))]
#[allow(dead_code, unused_imports, unused_variables, unused_macros, unused_mut, static_mut_refs)]
pub(crate) mod verif_string {
    use super::*;
    #[cfg(verif_replay)]
    use crate::verif_support::shim as kani;
    use crate::verif_support::*;
    use serde_json::Number;

    /// C16: substr counts in Unicode characters; out-of-range values clamp to the string.
    /// Computed in i128 so that no i64 extreme can overflow the spec itself.
    pub(crate) fn spec_substr_range(n: usize, start: i64, len: Option<i64>) -> (usize, usize) {
        let n = n as i128;
        let st = start as i128;
        let s = if st >= 0 { if st < n { st } else { n } } else if n + st > 0 { n + st } else { 0 };
        let e = match len {
            None => n,
            Some(l) => {
                let l = l as i128;
                if l >= 0 {
                    if s + l < n { s + l } else { n }
                } else if n + l > 0 {
                    n + l
                } else {
                    0
                }
            }
        };
        if e <= s { (s as usize, s as usize) } else { (s as usize, e as usize) }
    }

    fn expect_substr(chars: &[char], start: i64, len: Option<i64>) -> String {
        let (s, e) = spec_substr_range(chars.len(), start, len);
        let mut out = String::new();
        let mut i = s;
        while i < e {
            out.push(chars[i]);
            i += 1;
        }
        out
    }

    /// one concrete string shape, one (start, len) pair: result must be the character slice.
    fn check_one(text: &str, chars: &[char], start: i64, len: Option<i64>) {
        // built char by char into a pre-sized buffer: no memcpy / realloc, so CBMC keeps the bytes concrete
        let mut st = String::with_capacity(16);
        let mut ci = 0;
        while ci < chars.len() {
            st.push(chars[ci]);
            ci += 1;
        }
        let sv = MD::new(Value::String(st));
        let iv = MD::new(Value::Number(Number::from(start)));
        let lv = MD::new(Value::Number(Number::from(len.unwrap_or(0))));
        let mut items: Vec<&Value> = Vec::with_capacity(3);
        items.push(&*sv);
        items.push(&*iv);
        if len.is_some() {
            items.push(&*lv);
        }
        let items = MD::new(items);
        #[cfg(verif_replay)]
        eprintln!("REPLAY-INPUT: substr({:?}, {}, {:?})", text, start, len);
        let r = MD::new(substr(&items));
        match &*r {
            Ok(Value::String(s)) => {
                let e = expect_substr(chars, start, len);
                assert!(*s == e, "substr: result is not the character slice the statement describes");
            }
            _ => assert!(false, "substr on (string, integer[, integer]) must return a string"),
        }
    }


    // =====================================================================================
    // C16: substr for ALL i64 start / length over an ABSTRACT string of L <= 3 characters.
    // std's `Chars` is replaced by a contract stub that behaves as the character iterator of a string whose
    // i-th character is abstract_char(i) and which has L characters (L symbolic): `next` yields them in order,
    // `count` is the number left. The adapters Skip / Take / collect and String::from_iter are the REAL std
    // code running on top of it, so the output string is the real output for such a string. The concrete
    // String operand has a different BYTE length (it is "\u{e4}\u{e4}\u{e4}\u{e4}\u{e4}": 5 chars, 10 bytes), so
    // a body that measures bytes, or the real string, disagrees with L.
    // Assumed contract (trusted): the real `Chars` of a string with these characters behaves like the stub.
    // =====================================================================================
    use crate::verif_support::chars_contract::{abstract_char, CharsContract, CH_COUNT_CALLS, CH_L, CH_POS};

    /// `String::push` by contract: appends the character - recorded here instead of UTF-8-encoding a symbolic
    /// character into a heap buffer (which is what made multi-byte abstract characters intractable)
    pub(crate) static mut PUSHED: [char; 8] = ['\0'; 8];
    pub(crate) static mut PUSHED_N: usize = 0;
    pub(crate) fn string_push_stub(_s: &mut String, ch: char) {
        unsafe {
            assert!(PUSHED_N < 8, "more characters produced than the abstract string has");
            PUSHED[PUSHED_N] = ch;
            PUSHED_N += 1;
        }
    }

    /// `String::reserve` only guarantees capacity; with a symbolic amount it makes CBMC
    /// model a realloc/memcpy of symbolic size (measured: solver > 140 s then error)
    pub(crate) fn string_reserve_stub(s: &mut String, _additional: usize) {
        // a concrete amount (the abstract string has at most 3 one-byte characters; a later push asks again)
        unsafe { s.as_mut_vec() }.reserve_exact(4);
    }

    /// `quad`: 0 = all i64; 1..4 = sign quadrant of (start, length): 1 (+,+) 2 (+,-) 3 (-,+) 4 (-,-)
    pub(crate) fn body_substr_abstract(has_len: bool, l: usize, quad: u8) {
        crate::verif_support::chars_contract::reset(l);
        unsafe { PUSHED_N = 0 };
        let start: i64 = kani::any();
        let len: i64 = kani::any();
        match quad {
            1 => kani::assume(start >= 0 && len >= 0),
            2 => kani::assume(start >= 0 && len < 0),
            3 => kani::assume(start < 0 && len >= 0),
            4 => kani::assume(start < 0 && len < 0),
            _ => {}
        }
        let sv = MD::new(Value::String(String::from("\u{e4}\u{e4}\u{e4}\u{e4}\u{e4}")));
        let iv = MD::new(Value::Number(Number::from(start)));
        let lv = MD::new(Value::Number(Number::from(len)));
        let mut items: Vec<&Value> = Vec::with_capacity(3);
        items.push(&*sv);
        items.push(&*iv);
        if has_len {
            items.push(&*lv);
        }
        let items = MD::new(items);
        let r = MD::new(substr(&items));
        kani::cover!(true, "returned");
        // the characters are counted once (by contract) and the position is reset for the slice itself
        let (s, e) = spec_substr_range(l, start, if has_len { Some(len) } else { None });
        match &*r {
            Ok(Value::String(_out)) => {
                // the produced text is what was pushed, in order (String::push by contract)
                assert!(unsafe { PUSHED_N } == e - s, "substr: wrong number of characters (start skips / counts from the end, length takes / stops before the end, clamped to the string; all measured in characters, not bytes or UTF-16 units)");
                let mut k = 0;
                while k < e - s {
                    assert!(unsafe { PUSHED[k] } == abstract_char(s + k), "substr: wrong characters selected");
                    k += 1;
                }
            }
            _ => assert!(false, "substr(string, integer[, integer]) returns a string for every integer"),
        }
    }
    macro_rules! substr_abstract_harness {
        ($name:ident, $has_len:expr, $l:expr, $quad:expr) => {
            #[cfg_attr(kani, kani::proof)]
            #[cfg_attr(kani, kani::unwind(12))]
            #[cfg_attr(kani, kani::stub(<std::str::Chars<'_> as std::iter::Iterator>::next, CharsContract::next))]
            #[cfg_attr(kani, kani::stub(<std::str::Chars<'_> as std::iter::Iterator>::count, CharsContract::count))]
            #[cfg_attr(kani, kani::stub(<std::str::Chars<'_> as std::iter::Iterator>::advance_by, CharsContract::advance_by))]
            #[cfg_attr(kani, kani::stub(std::string::String::reserve, string_reserve_stub))]
            #[cfg_attr(kani, kani::stub(std::string::String::push, string_push_stub))]
            #[cfg_attr(kani, kani::stub(std::fmt::format, crate::verif_support::fmt_stub))]
            pub(crate) fn $name() {
                body_substr_abstract($has_len, $l, $quad);
            }
        };
    }
//@GENERATED-SUBSTR
    //@ob name=C16.substr.abstract.2.len0.all harness=k_c16_substr_abstract_2_len0_all props=C16,C01 tier=quick strength=bounded bound="a string of 0 characters (abstract: Chars by contract, real Skip/Take/collect); start: EVERY i64 (all 64-bit values of that sign)" fns=op::string::substr stubs=6 timeout=600 group=heavy
    //@ desc="substr on a 0-character string, for every 64-bit start in the stated sign class: the result is exactly the characters the statement describes (skip / count from the end; take / stop before the end; clamped), counted in characters, never bytes"
    substr_abstract_harness!(k_c16_substr_abstract_2_len0_all, false, 0, 0);
    //@ob name=C16.substr.abstract.2.len1.all harness=k_c16_substr_abstract_2_len1_all props=C16,C01 tier=quick strength=bounded bound="a string of 1 characters (abstract: Chars by contract, real Skip/Take/collect); start: EVERY i64 (all 64-bit values of that sign)" fns=op::string::substr stubs=6 timeout=600 group=heavy
    //@ desc="substr on a 1-character string, for every 64-bit start in the stated sign class: the result is exactly the characters the statement describes (skip / count from the end; take / stop before the end; clamped), counted in characters, never bytes"
    substr_abstract_harness!(k_c16_substr_abstract_2_len1_all, false, 1, 0);
    //@ob name=C16.substr.abstract.2.len2.all harness=k_c16_substr_abstract_2_len2_all props=C16,C01 tier=quick strength=bounded bound="a string of 2 characters (abstract: Chars by contract, real Skip/Take/collect); start: EVERY i64 (all 64-bit values of that sign)" fns=op::string::substr stubs=6 timeout=600 group=heavy
    //@ desc="substr on a 2-character string, for every 64-bit start in the stated sign class: the result is exactly the characters the statement describes (skip / count from the end; take / stop before the end; clamped), counted in characters, never bytes"
    substr_abstract_harness!(k_c16_substr_abstract_2_len2_all, false, 2, 0);
    //@ob name=C16.substr.abstract.2.len3.all harness=k_c16_substr_abstract_2_len3_all props=C16,C01 tier=quick strength=bounded bound="a string of 3 characters (abstract: Chars by contract, real Skip/Take/collect); start: EVERY i64 (all 64-bit values of that sign)" fns=op::string::substr stubs=6 timeout=600 group=heavy
    //@ desc="substr on a 3-character string, for every 64-bit start in the stated sign class: the result is exactly the characters the statement describes (skip / count from the end; take / stop before the end; clamped), counted in characters, never bytes"
    substr_abstract_harness!(k_c16_substr_abstract_2_len3_all, false, 3, 0);
    //@ob name=C16.substr.abstract.3.len0.all harness=k_c16_substr_abstract_3_len0_all props=C16,C01 tier=quick strength=bounded bound="a string of 0 characters (abstract: Chars by contract, real Skip/Take/collect); start/length: EVERY i64 (all 64-bit values of that sign)" fns=op::string::substr stubs=6 timeout=600 group=heavy
    //@ desc="substr on a 0-character string, for every 64-bit start and length in the stated sign class: the result is exactly the characters the statement describes (skip / count from the end; take / stop before the end; clamped), counted in characters, never bytes"
    substr_abstract_harness!(k_c16_substr_abstract_3_len0_all, true, 0, 0);
    //@ob name=C16.substr.abstract.3.len1.all harness=k_c16_substr_abstract_3_len1_all props=C16,C01 tier=quick strength=bounded bound="a string of 1 characters (abstract: Chars by contract, real Skip/Take/collect); start/length: EVERY i64 (all 64-bit values of that sign)" fns=op::string::substr stubs=6 timeout=600 group=heavy
    //@ desc="substr on a 1-character string, for every 64-bit start and length in the stated sign class: the result is exactly the characters the statement describes (skip / count from the end; take / stop before the end; clamped), counted in characters, never bytes"
    substr_abstract_harness!(k_c16_substr_abstract_3_len1_all, true, 1, 0);
    //@ob name=C16.substr.abstract.3.len2.all harness=k_c16_substr_abstract_3_len2_all props=C16,C01 tier=quick strength=bounded bound="a string of 2 characters (abstract: Chars by contract, real Skip/Take/collect); start/length: EVERY i64 (all 64-bit values of that sign)" fns=op::string::substr stubs=6 timeout=600 group=heavy
    //@ desc="substr on a 2-character string, for every 64-bit start and length in the stated sign class: the result is exactly the characters the statement describes (skip / count from the end; take / stop before the end; clamped), counted in characters, never bytes"
    substr_abstract_harness!(k_c16_substr_abstract_3_len2_all, true, 2, 0);
    //@ob name=C16.substr.abstract.3.len3.all harness=k_c16_substr_abstract_3_len3_all props=C16,C01 tier=quick strength=bounded bound="a string of 3 characters (abstract: Chars by contract, real Skip/Take/collect); start/length: EVERY i64 (all 64-bit values of that sign)" fns=op::string::substr stubs=6 timeout=600 group=heavy
    //@ desc="substr on a 3-character string, for every 64-bit start and length in the stated sign class: the result is exactly the characters the statement describes (skip / count from the end; take / stop before the end; clamped), counted in characters, never bytes"
    substr_abstract_harness!(k_c16_substr_abstract_3_len3_all, true, 3, 0);
//@END-GENERATED-SUBSTR

    // =====================================================================================
    // C16: cat - concatenation of the operands' string forms, in order; strings unchanged.
    // to_string by contract: the string form of operand i is the planned label L_i (one ASCII byte)
    // for non-strings; string operands must pass through WITHOUT conversion.
    // =====================================================================================
    pub(crate) static mut TS_PTR: [*const Value; 4] = [std::ptr::null(); 4];
    pub(crate) static mut TS_LABEL: [u8; 4] = [0; 4];
    pub(crate) static mut TS_CALLS: [u8; 4] = [0; 4];
    pub(crate) fn to_string_stub(value: &Value) -> String {
        let p = value as *const Value;
        let mut i = 0;
        while i < 4 {
            if unsafe { TS_PTR[i] } == p {
                unsafe { TS_CALLS[i] += 1 };
                let mut s = String::from("a");
                unsafe { s.as_bytes_mut()[0] = TS_LABEL[i] };
                return s;
            }
            i += 1;
        }
        assert!(false, "to_string called on a value that is not an operand");
        String::new()
    }
    /// kinds digit (base 3) per operand: 0 = string (1 symbolic ASCII byte), 1 = number, 2 = array
    pub(crate) fn body_cat(n: usize, kinds: u32) {
        let mut vals: Vec<MD<Value>> = Vec::with_capacity(4);
        let mut want = [0u8; 4];
        let mut k = kinds;
        let mut i = 0;
        while i < n {
            let d = k % 3;
            k /= 3;
            let b: u8 = kani::any();
            kani::assume(b < 128);
            want[i] = b;
            let v = match d {
                0 => {
                    let mut s = String::from("a");
                    unsafe { s.as_bytes_mut()[0] = b };
                    Value::String(s)
                }
                1 => Value::Number(Number::from(7)),
                _ => Value::Array(Vec::new()),
            };
            vals.push(MD::new(v));
            i += 1;
        }
        let vals = MD::new(vals);
        let mut items: Vec<&Value> = Vec::with_capacity(4);
        let mut i = 0;
        let mut k = kinds;
        while i < n {
            items.push(&*vals[i]);
            if k % 3 != 0 {
                unsafe {
                    TS_PTR[i] = &*vals[i] as *const Value;
                    TS_LABEL[i] = want[i];
                }
            }
            k /= 3;
            i += 1;
        }
        let items = MD::new(items);
        let r = MD::new(cat(&items));
        kani::cover!(true, "returned");
        match &*r {
            Ok(Value::String(out)) => {
                assert!(out.len() == n, "cat: result must be the concatenation of the operands' string forms (one piece per operand)");
                let mut j = 0;
                while j < n {
                    assert!(out.as_bytes()[j] == want[j], "cat: pieces in operand order, strings unchanged, other values by their string form");
                    j += 1;
                }
            }
            _ => assert!(false, "cat always returns a string"),
        }
    }
    macro_rules! cat_harness {
        ($name:ident, $n:expr, $kinds:expr) => {
            #[cfg_attr(kani, kani::proof)]
            #[cfg_attr(kani, kani::unwind(8))]
            #[cfg_attr(kani, kani::stub(crate::js_op::to_string, to_string_stub))]
            #[cfg_attr(kani, kani::stub(std::fmt::format, crate::verif_support::fmt_stub))]
            pub(crate) fn $name() {
                body_cat($n, $kinds);
            }
        };
    }
//@GENERATED-CAT
    //@ob name=C16.cat.none harness=k_c16_cat_none props=C16,C01 tier=quick strength=bounded bound="operand kinds (); string contents / string forms: one symbolic ASCII byte each" fns=op::string::cat stubs=2 timeout=200 cutdrop=1
    //@ desc="cat: the concatenation, in operand order, of string operands unchanged and of to_string(v) for every other operand (to_string by contract); so concatenating in pieces equals concatenating at once"
    cat_harness!(k_c16_cat_none, 0, 0);
    //@ob name=C16.cat.str harness=k_c16_cat_str props=C16,C01 tier=quick strength=bounded bound="operand kinds (str); string contents / string forms: one symbolic ASCII byte each" fns=op::string::cat stubs=2 timeout=200 cutdrop=1
    //@ desc="cat: the concatenation, in operand order, of string operands unchanged and of to_string(v) for every other operand (to_string by contract); so concatenating in pieces equals concatenating at once"
    cat_harness!(k_c16_cat_str, 1, 0);
    //@ob name=C16.cat.num harness=k_c16_cat_num props=C16,C01 tier=quick strength=bounded bound="operand kinds (num); string contents / string forms: one symbolic ASCII byte each" fns=op::string::cat stubs=2 timeout=200 cutdrop=1
    //@ desc="cat: the concatenation, in operand order, of string operands unchanged and of to_string(v) for every other operand (to_string by contract); so concatenating in pieces equals concatenating at once"
    cat_harness!(k_c16_cat_num, 1, 1);
    //@ob name=C16.cat.str_num harness=k_c16_cat_str_num props=C16,C01 tier=quick strength=bounded bound="operand kinds (str, num); string contents / string forms: one symbolic ASCII byte each" fns=op::string::cat stubs=2 timeout=200 cutdrop=1
    //@ desc="cat: the concatenation, in operand order, of string operands unchanged and of to_string(v) for every other operand (to_string by contract); so concatenating in pieces equals concatenating at once"
    cat_harness!(k_c16_cat_str_num, 2, 3);
    //@ob name=C16.cat.arr_str harness=k_c16_cat_arr_str props=C16,C01 tier=quick strength=bounded bound="operand kinds (arr, str); string contents / string forms: one symbolic ASCII byte each" fns=op::string::cat stubs=2 timeout=200 cutdrop=1
    //@ desc="cat: the concatenation, in operand order, of string operands unchanged and of to_string(v) for every other operand (to_string by contract); so concatenating in pieces equals concatenating at once"
    cat_harness!(k_c16_cat_arr_str, 2, 2);
    //@ob name=C16.cat.str_str_str harness=k_c16_cat_str_str_str props=C16,C01 tier=thorough strength=bounded bound="operand kinds (str, str, str); string contents / string forms: one symbolic ASCII byte each" fns=op::string::cat stubs=2 timeout=200 cutdrop=1
    //@ desc="cat: the concatenation, in operand order, of string operands unchanged and of to_string(v) for every other operand (to_string by contract); so concatenating in pieces equals concatenating at once"
    cat_harness!(k_c16_cat_str_str_str, 3, 0);
    //@ob name=C16.cat.num_str_arr harness=k_c16_cat_num_str_arr props=C16,C01 tier=thorough strength=bounded bound="operand kinds (num, str, arr); string contents / string forms: one symbolic ASCII byte each" fns=op::string::cat stubs=2 timeout=200 cutdrop=1
    //@ desc="cat: the concatenation, in operand order, of string operands unchanged and of to_string(v) for every other operand (to_string by contract); so concatenating in pieces equals concatenating at once"
    cat_harness!(k_c16_cat_num_str_arr, 3, 19);
//@END-GENERATED-CAT
}

#[cfg(any(kani, verif_replay))]
#[allow(dead_code, unused_imports, unused_variables, unused_macros, unused_mut, static_mut_refs)]
pub(crate) mod verif_string {
    use super::*;
    #[cfg(verif_replay)]
    use crate::verif_support::shim as kani;
    use crate::verif_support::*;
    use serde_json::Number;

    /// C16: substr counts in Unicode characters; out-of-range values clamp to the string.
    /// Computed in i128 so that no i64 extreme can overflow the spec itself.
    pub(crate) fn spec_substr_range(n: usize, start: i64, len: Option<i64>) -> (usize, usize) {
        let n = n as i128;
        let st = start as i128;
        let s = if st >= 0 { if st < n { st } else { n } } else if n + st > 0 { n + st } else { 0 };
        let e = match len {
            None => n,
            Some(l) => {
                let l = l as i128;
                if l >= 0 {
                    if s + l < n { s + l } else { n }
                } else if n + l > 0 {
                    n + l
                } else {
                    0
                }
            }
        };
        if e <= s { (s as usize, s as usize) } else { (s as usize, e as usize) }
    }

    fn expect_substr(chars: &[char], start: i64, len: Option<i64>) -> String {
        let (s, e) = spec_substr_range(chars.len(), start, len);
        let mut out = String::new();
        let mut i = s;
        while i < e {
            out.push(chars[i]);
            i += 1;
        }
        out
    }

    /// one concrete string shape, one (start, len) pair: result must be the character slice.
    fn check_one(text: &str, chars: &[char], start: i64, len: Option<i64>) {
        // built char by char into a pre-sized buffer: no memcpy / realloc, so CBMC keeps the bytes concrete
        let mut st = String::with_capacity(16);
        let mut ci = 0;
        while ci < chars.len() {
            st.push(chars[ci]);
            ci += 1;
        }
        let sv = MD::new(Value::String(st));
        let iv = MD::new(Value::Number(Number::from(start)));
        let lv = MD::new(Value::Number(Number::from(len.unwrap_or(0))));
        let mut items: Vec<&Value> = Vec::with_capacity(3);
        items.push(&*sv);
        items.push(&*iv);
        if len.is_some() {
            items.push(&*lv);
        }
        let items = MD::new(items);
        #[cfg(verif_replay)]
        eprintln!("REPLAY-INPUT: substr({:?}, {}, {:?})", text, start, len);
        let r = MD::new(substr(&items));
        match &*r {
            Ok(Value::String(s)) => {
                let e = expect_substr(chars, start, len);
                assert!(*s == e, "substr: result is not the character slice the statement describes");
            }
            _ => assert!(false, "substr on (string, integer[, integer]) must return a string"),
        }
    }

    const WINDOW: [i64; 11] = [i64::MIN, -4, -3, -2, -1, 0, 1, 2, 3, 4, i64::MAX];

    fn sweep(text: &str, chars: &[char]) {
        // every (start, len) pair of the window, executed concretely one after the other
        let mut a = 0;
        while a < 11 {
            let mut b = 0;
            while b < 12 {
                let len = if b == 11 { None } else { Some(WINDOW[b]) };
                check_one(text, chars, WINDOW[a], len);
                b += 1;
            }
            a += 1;
        }
        kani::cover!(true, "swept");
    }

    //@ob name=C16.substr.single props=C16 tier=quick strength=bounded bound="one call" fns=op::string::substr stubs=1 timeout=150
    //@ desc="timing probe: one concrete call"
    #[cfg_attr(kani, kani::proof)]
    #[cfg_attr(kani, kani::stub(std::fmt::format, crate::verif_support::fmt_stub))]
    pub(crate) fn k_c16_substr_single() {
        check_one("a\u{e4}\u{20ac}", &['a', '\u{e4}', '\u{20ac}'], -1, Some(2));
        kani::cover!(true, "done");
    }

    macro_rules! substr_shape {
        ($name:ident, $text:expr, $chars:expr) => {
            #[cfg_attr(kani, kani::proof)]
            #[cfg_attr(kani, kani::unwind(14))]
            #[cfg_attr(kani, kani::stub(std::fmt::format, crate::verif_support::fmt_stub))]
            pub(crate) fn $name() {
                sweep($text, &$chars);
            }
        };
    }
    //@ob name=C16.substr.shape.ascii3 harness=k_c16_substr_ascii3 props=C16,C01 strength=bounded bound="string \"abc\"; start and length each in {i64::MIN,-4..4,i64::MAX} and length absent" fns=op::string::substr stubs=1 replay=generic timeout=600
    //@ desc="substr(s,i[,n]) == the character slice (skip i / from the end, take n / stop n before the end, clamped), and no panic, on this shape"
    substr_shape!(k_c16_substr_ascii3, "abc", ['a', 'b', 'c']);
    //@ob name=C16.substr.shape.mixed3 harness=k_c16_substr_mixed3 props=C16,C01 strength=bounded bound="string \"aä€\" (1-,2-,3-byte chars); start and length each in {i64::MIN,-4..4,i64::MAX} and length absent" fns=op::string::substr stubs=1 replay=generic timeout=600
    //@ desc="substr counts Unicode characters, never bytes, on a string whose byte and character offsets differ"
    substr_shape!(k_c16_substr_mixed3, "a\u{e4}\u{20ac}", ['a', '\u{e4}', '\u{20ac}']);
    //@ob name=C16.substr.shape.astral2 harness=k_c16_substr_astral2 props=C16,C01 strength=bounded bound="string \"😀b\" (4-byte char); start and length each in {i64::MIN,-4..4,i64::MAX} and length absent" fns=op::string::substr stubs=1 replay=generic timeout=600
    //@ desc="substr counts Unicode characters on a string with a 4-byte character"
    substr_shape!(k_c16_substr_astral2, "\u{1F600}b", ['\u{1F600}', 'b']);
    //@ob name=C16.substr.shape.empty harness=k_c16_substr_empty props=C16,C01 strength=bounded bound="empty string; start and length each in {i64::MIN,-4..4,i64::MAX} and length absent" fns=op::string::substr stubs=1 replay=generic timeout=600
    //@ desc="substr of the empty string is empty for every start/length"
    substr_shape!(k_c16_substr_empty, "", [' '; 0]);
}

#[cfg(any(kani, verif_replay))]
#[allow(dead_code, unused_imports, unused_variables, unused_macros, unused_mut, static_mut_refs)]
pub(crate) mod verif_string {
    use super::*;
    #[cfg(verif_replay)]
    use crate::verif_support::shim as kani;
    use crate::verif_support::*;
    use serde_json::Number;

    /// C16: substr counts in Unicode characters; out-of-range values clamp to the string.
    /// Computed in i128 so that no i64 extreme can overflow the spec itself.
    pub(crate) fn spec_substr_range(n: usize, start: i64, len: Option<i64>) -> (usize, usize) {
        let n = n as i128;
        let st = start as i128;
        let s = if st >= 0 { if st < n { st } else { n } } else if n + st > 0 { n + st } else { 0 };
        let e = match len {
            None => n,
            Some(l) => {
                let l = l as i128;
                if l >= 0 {
                    if s + l < n { s + l } else { n }
                } else if n + l > 0 {
                    n + l
                } else {
                    0
                }
            }
        };
        if e <= s { (s as usize, s as usize) } else { (s as usize, e as usize) }
    }

    fn expect_substr(chars: &[char], start: i64, len: Option<i64>) -> String {
        let (s, e) = spec_substr_range(chars.len(), start, len);
        let mut out = String::new();
        let mut i = s;
        while i < e {
            out.push(chars[i]);
            i += 1;
        }
        out
    }

    /// one concrete string shape, one (start, len) pair: result must be the character slice.
    fn check_one(text: &str, chars: &[char], start: i64, len: Option<i64>) {
        // built char by char into a pre-sized buffer: no memcpy / realloc, so CBMC keeps the bytes concrete
        let mut st = String::with_capacity(16);
        let mut ci = 0;
        while ci < chars.len() {
            st.push(chars[ci]);
            ci += 1;
        }
        let sv = MD::new(Value::String(st));
        let iv = MD::new(Value::Number(Number::from(start)));
        let lv = MD::new(Value::Number(Number::from(len.unwrap_or(0))));
        let mut items: Vec<&Value> = Vec::with_capacity(3);
        items.push(&*sv);
        items.push(&*iv);
        if len.is_some() {
            items.push(&*lv);
        }
        let items = MD::new(items);
        #[cfg(verif_replay)]
        eprintln!("REPLAY-INPUT: substr({:?}, {}, {:?})", text, start, len);
        let r = MD::new(substr(&items));
        match &*r {
            Ok(Value::String(s)) => {
                let e = expect_substr(chars, start, len);
                assert!(*s == e, "substr: result is not the character slice the statement describes");
            }
            _ => assert!(false, "substr on (string, integer[, integer]) must return a string"),
        }
    }


    // =====================================================================================
    // C16: substr's index arithmetic for ALL i64 start / length and ALL character counts, with the std
    // iterator chain by contract. Assumed contract on std (trusted, stated in the evidence):
    //   * `s.chars().count()` is the number of characters of s;
    //   * `s.chars().skip(a).take(b).collect::<String>()` is the characters a .. min(a+b, len) of s.
    // The stubs do not iterate: `count` returns a planned symbolic character count L, `from_iter` records
    // the (skip, take) pair the code asked for by reading the adapter structs (layout validated by
    // K:C16.substr.adapter_layout on every run) and the harness compares them with the spec slice.
    // =====================================================================================
    pub(crate) static mut SS_COUNT_CALLS: u32 = 0;
    pub(crate) static mut SS_L: usize = 0;
    pub(crate) static mut SS_COLLECT_CALLS: u32 = 0;
    pub(crate) static mut SS_SKIP: usize = 0;
    pub(crate) static mut SS_TAKE: usize = 0;
    pub(crate) static mut SS_PTR: usize = 0;
    pub(crate) static mut SS_END: usize = 0;
    /// field order of Take<Skip<Chars>> as 4 machine words, established by the layout harness
    pub(crate) const W_PTR: usize = 0;
    pub(crate) const W_END: usize = 1;
    pub(crate) const W_SKIP: usize = 2;
    pub(crate) const W_TAKE: usize = 3;

    pub(crate) fn chars_count_stub(c: std::str::Chars<'_>) -> usize {
        let w: [usize; 2] = unsafe { std::mem::transmute_copy(&c) };
        unsafe {
            SS_COUNT_CALLS += 1;
            SS_PTR = w[0];
            SS_END = w[1];
            SS_L
        }
    }
    pub(crate) fn from_iter_stub<I: IntoIterator<Item = char>>(iter: I) -> String {
        assert!(std::mem::size_of::<I>() == 4 * std::mem::size_of::<usize>(), "collect() called on something other than Take<Skip<Chars>>");
        let w: [usize; 4] = unsafe { std::mem::transmute_copy(&iter) };
        std::mem::forget(iter);
        unsafe {
            SS_COLLECT_CALLS += 1;
            SS_SKIP = w[W_SKIP];
            SS_TAKE = w[W_TAKE];
            assert!(SS_COUNT_CALLS == 0 || (w[W_PTR] == SS_PTR && w[W_END] == SS_END), "the slice is taken from a different string than the one that was measured");
        }
        String::new()
    }

    //@ob name=C16.substr.adapter_layout props=C16 strength=complete fns=std::iter::Take,std::iter::Skip,std::str::Chars timeout=200
    //@ desc="validation of the stub's view of std's adapter structs: for `s.chars().skip(a).take(b)` the four words are (ptr, end, a, b) for every a, b - the layout the from_iter stub relies on"
    #[cfg_attr(kani, kani::proof)]
    pub(crate) fn k_c16_substr_adapter_layout() {
        let s = "ab";
        let a: usize = kani::any();
        let b: usize = kani::any();
        let it = s.chars().skip(a).take(b);
        let w: [usize; 4] = unsafe { std::mem::transmute_copy(&it) };
        assert!(std::mem::size_of_val(&it) == 32, "Take<Skip<Chars>> is four words");
        assert!(w[W_PTR] == s.as_ptr() as usize && w[W_END] == s.as_ptr() as usize + 2, "ptr / end words");
        assert!(w[W_SKIP] == a && w[W_TAKE] == b, "skip / take words");
        let c = s.chars();
        let cw: [usize; 2] = unsafe { std::mem::transmute_copy(&c) };
        assert!(cw[0] == s.as_ptr() as usize && cw[1] == s.as_ptr() as usize + 2, "Chars is (ptr, end)");
        kani::cover!(true, "checked");
    }

    /// has_len: 0 = two operands, 1 = three operands
    pub(crate) fn body_substr_arith(has_len: bool) {
        let l: usize = kani::any();
        unsafe { SS_L = l };
        let start: i64 = kani::any();
        let len: i64 = kani::any();
        // the concrete string has ONE character in TWO bytes: a body that measures bytes sees 2, not 1
        let sv = MD::new(Value::String(String::from("\u{e4}")));
        let iv = MD::new(Value::Number(Number::from(start)));
        let lv = MD::new(Value::Number(Number::from(len)));
        let mut items: Vec<&Value> = Vec::with_capacity(3);
        items.push(&*sv);
        items.push(&*iv);
        if has_len {
            items.push(&*lv);
        }
        let items = MD::new(items);
        let r = MD::new(substr(&items));
        kani::cover!(true, "returned");
        assert!(matches!(&*r, Ok(Value::String(_))), "substr(string, integer[, integer]) returns a string for every integer");
        assert!(unsafe { SS_COLLECT_CALLS } == 1, "exactly one slice is produced");
        // the character count the spec works with: what the code measured by contract, or - if it never
        // counted characters - the real character count of the string
        let n = if unsafe { SS_COUNT_CALLS } > 0 { l } else { 1 };
        let (s, e) = spec_substr_range(n, start, if has_len { Some(len) } else { None });
        let sk = unsafe { SS_SKIP };
        let tk = unsafe { SS_TAKE };
        // effective slice of skip(sk).take(tk) on n characters
        let es = if sk < n { sk } else { n };
        let ee = match es.checked_add(tk) {
            Some(x) if x < n => x,
            _ => n,
        };
        if e > s {
            assert!(es == s && ee == e, "substr: the slice is not the characters the statement describes (skip start / from the end, take n / stop n before the end, clamped)");
        } else {
            assert!(ee == es, "substr: the slice must be empty here");
        }
    }
    macro_rules! substr_arith_harness {
        ($name:ident, $has_len:expr) => {
            #[cfg_attr(kani, kani::proof)]
            #[cfg_attr(kani, kani::stub(<std::str::Chars<'_> as std::iter::Iterator>::count, chars_count_stub))]
            #[cfg_attr(kani, kani::stub(<std::string::String as std::iter::FromIterator<char>>::from_iter, from_iter_stub))]
            #[cfg_attr(kani, kani::stub(std::fmt::format, crate::verif_support::fmt_stub))]
            pub(crate) fn $name() {
                body_substr_arith($has_len);
            }
        };
    }
    //@ob name=C16.substr.arith.2 harness=k_c16_substr_arith_2 props=C16,C01 strength=complete fns=op::string::substr stubs=3 timeout=300
    //@ desc="substr(s, i): for EVERY i64 i and EVERY character count, the (skip, take) handed to the std iterator chain selects exactly the characters from i (or from the end for negative i) to the end, clamped; lengths are measured in characters (std chain by contract)"
    substr_arith_harness!(k_c16_substr_arith_2, false);
    //@ob name=C16.substr.arith.3 harness=k_c16_substr_arith_3 props=C16,C01 strength=complete fns=op::string::substr stubs=3 timeout=300
    //@ desc="substr(s, i, n): for EVERY pair of i64 and EVERY character count, the slice is: skip i / count from the end; take n / stop |n| before the end; clamped to the string (std chain by contract)"
    substr_arith_harness!(k_c16_substr_arith_3, true);

    // =====================================================================================
    // C16: cat - concatenation of the operands' string forms, in order; strings unchanged.
    // to_string by contract: the string form of operand i is the planned label L_i (one ASCII byte)
    // for non-strings; string operands must pass through WITHOUT conversion.
    // =====================================================================================
    pub(crate) static mut TS_PTR: [*const Value; 4] = [std::ptr::null(); 4];
    pub(crate) static mut TS_LABEL: [u8; 4] = [0; 4];
    pub(crate) static mut TS_CALLS: [u8; 4] = [0; 4];
    pub(crate) fn to_string_stub(value: &Value) -> String {
        let p = value as *const Value;
        let mut i = 0;
        while i < 4 {
            if unsafe { TS_PTR[i] } == p {
                unsafe { TS_CALLS[i] += 1 };
                let mut s = String::from("a");
                unsafe { s.as_bytes_mut()[0] = TS_LABEL[i] };
                return s;
            }
            i += 1;
        }
        assert!(false, "to_string called on a value that is not an operand");
        String::new()
    }
    /// kinds digit (base 3) per operand: 0 = string (1 symbolic ASCII byte), 1 = number, 2 = array
    pub(crate) fn body_cat(n: usize, kinds: u32) {
        let mut vals: Vec<MD<Value>> = Vec::with_capacity(4);
        let mut want = [0u8; 4];
        let mut k = kinds;
        let mut i = 0;
        while i < n {
            let d = k % 3;
            k /= 3;
            let b: u8 = kani::any();
            kani::assume(b < 128);
            want[i] = b;
            let v = match d {
                0 => {
                    let mut s = String::from("a");
                    unsafe { s.as_bytes_mut()[0] = b };
                    Value::String(s)
                }
                1 => Value::Number(Number::from(7)),
                _ => Value::Array(Vec::new()),
            };
            vals.push(MD::new(v));
            i += 1;
        }
        let vals = MD::new(vals);
        let mut items: Vec<&Value> = Vec::with_capacity(4);
        let mut i = 0;
        let mut k = kinds;
        while i < n {
            items.push(&*vals[i]);
            if k % 3 != 0 {
                unsafe {
                    TS_PTR[i] = &*vals[i] as *const Value;
                    TS_LABEL[i] = want[i];
                }
            }
            k /= 3;
            i += 1;
        }
        let items = MD::new(items);
        let r = MD::new(cat(&items));
        kani::cover!(true, "returned");
        match &*r {
            Ok(Value::String(out)) => {
                assert!(out.len() == n, "cat: result must be the concatenation of the operands' string forms (one piece per operand)");
                let mut j = 0;
                while j < n {
                    assert!(out.as_bytes()[j] == want[j], "cat: pieces in operand order, strings unchanged, other values by their string form");
                    j += 1;
                }
            }
            _ => assert!(false, "cat always returns a string"),
        }
    }
    macro_rules! cat_harness {
        ($name:ident, $n:expr, $kinds:expr) => {
            #[cfg_attr(kani, kani::proof)]
            #[cfg_attr(kani, kani::unwind(8))]
            #[cfg_attr(kani, kani::stub(crate::js_op::to_string, to_string_stub))]
            #[cfg_attr(kani, kani::stub(std::fmt::format, crate::verif_support::fmt_stub))]
            pub(crate) fn $name() {
                body_cat($n, $kinds);
            }
        };
    }
//@GENERATED-CAT
    //@ob name=C16.cat.none harness=k_c16_cat_none props=C16,C01 tier=quick strength=bounded bound="operand kinds (); string contents / string forms: one symbolic ASCII byte each" fns=op::string::cat stubs=2 timeout=200 cutdrop=1
    //@ desc="cat: the concatenation, in operand order, of string operands unchanged and of to_string(v) for every other operand (to_string by contract); so concatenating in pieces equals concatenating at once"
    cat_harness!(k_c16_cat_none, 0, 0);
    //@ob name=C16.cat.str harness=k_c16_cat_str props=C16,C01 tier=quick strength=bounded bound="operand kinds (str); string contents / string forms: one symbolic ASCII byte each" fns=op::string::cat stubs=2 timeout=200 cutdrop=1
    //@ desc="cat: the concatenation, in operand order, of string operands unchanged and of to_string(v) for every other operand (to_string by contract); so concatenating in pieces equals concatenating at once"
    cat_harness!(k_c16_cat_str, 1, 0);
    //@ob name=C16.cat.num harness=k_c16_cat_num props=C16,C01 tier=quick strength=bounded bound="operand kinds (num); string contents / string forms: one symbolic ASCII byte each" fns=op::string::cat stubs=2 timeout=200 cutdrop=1
    //@ desc="cat: the concatenation, in operand order, of string operands unchanged and of to_string(v) for every other operand (to_string by contract); so concatenating in pieces equals concatenating at once"
    cat_harness!(k_c16_cat_num, 1, 1);
    //@ob name=C16.cat.str_num harness=k_c16_cat_str_num props=C16,C01 tier=quick strength=bounded bound="operand kinds (str, num); string contents / string forms: one symbolic ASCII byte each" fns=op::string::cat stubs=2 timeout=200 cutdrop=1
    //@ desc="cat: the concatenation, in operand order, of string operands unchanged and of to_string(v) for every other operand (to_string by contract); so concatenating in pieces equals concatenating at once"
    cat_harness!(k_c16_cat_str_num, 2, 3);
    //@ob name=C16.cat.arr_str harness=k_c16_cat_arr_str props=C16,C01 tier=quick strength=bounded bound="operand kinds (arr, str); string contents / string forms: one symbolic ASCII byte each" fns=op::string::cat stubs=2 timeout=200 cutdrop=1
    //@ desc="cat: the concatenation, in operand order, of string operands unchanged and of to_string(v) for every other operand (to_string by contract); so concatenating in pieces equals concatenating at once"
    cat_harness!(k_c16_cat_arr_str, 2, 2);
    //@ob name=C16.cat.str_str_str harness=k_c16_cat_str_str_str props=C16,C01 tier=thorough strength=bounded bound="operand kinds (str, str, str); string contents / string forms: one symbolic ASCII byte each" fns=op::string::cat stubs=2 timeout=200 cutdrop=1
    //@ desc="cat: the concatenation, in operand order, of string operands unchanged and of to_string(v) for every other operand (to_string by contract); so concatenating in pieces equals concatenating at once"
    cat_harness!(k_c16_cat_str_str_str, 3, 0);
    //@ob name=C16.cat.num_str_arr harness=k_c16_cat_num_str_arr props=C16,C01 tier=thorough strength=bounded bound="operand kinds (num, str, arr); string contents / string forms: one symbolic ASCII byte each" fns=op::string::cat stubs=2 timeout=200 cutdrop=1
    //@ desc="cat: the concatenation, in operand order, of string operands unchanged and of to_string(v) for every other operand (to_string by contract); so concatenating in pieces equals concatenating at once"
    cat_harness!(k_c16_cat_num_str_arr, 3, 19);
//@END-GENERATED-CAT
}

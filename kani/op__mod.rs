#[cfg(any(kani, verif_replay))]
#[allow(dead_code, unused_imports, unused_variables, unused_macros, unused_mut, static_mut_refs)]
pub(crate) mod verif_opmod {
    use super::*;
    #[cfg(verif_replay)]
    use crate::verif_support::shim as kani;
    use crate::verif_support::*;
    use serde_json::Number;

    // =====================================================================================
    // C03: documented arities, from the property statement (NOT from the tables).
    // =====================================================================================
    pub(crate) fn documented_arity(name: &str, n: usize) -> bool {
        match name {
            "==" | "!=" | "===" | "!==" | "/" | "%" | "in" | "map" | "filter" | "all" | "some" | "none" | "missing_some" => n == 2,
            "<" | "<=" | ">" | ">=" | "substr" => n == 2 || n == 3,
            "reduce" => n == 3,
            "!" | "!!" | "log" => n == 1,
            "-" => n == 1 || n == 2,
            "var" => n <= 2,
            "*" | "max" | "min" | "and" | "or" => n >= 1,
            "+" | "cat" | "merge" | "missing" | "if" | "?:" => true,
            _ => {
                assert!(false, "not a documented operator name");
                false
            }
        }
    }
    pub(crate) const EAGER: [&str; 22] = [
        "==", "!=", "===", "!==", "!", "!!", "<", "<=", ">", ">=", "+", "-", "*", "/", "%", "max", "min", "merge", "in", "cat", "substr", "log",
    ];
    pub(crate) const DATA: [&str; 3] = ["var", "missing", "missing_some"];
    pub(crate) const LAZY: [&str; 10] = ["if", "?:", "or", "and", "map", "filter", "reduce", "all", "some", "none"];

    fn check_entry(name: &str, symbol: &str, np: &NumParams) {
        assert!(symbol == name, "table entry's symbol differs from its key");
        let n: usize = kani::any();
        assert!(np.is_valid_len(&n) == documented_arity(name, n), "C03: operator accepts an operand count outside its documented set, or rejects a documented one");
        assert!(!np.is_valid_len(&1) || np.can_accept_unary(), "C03: {op: x} must mean {op: [x]}: an operator that takes one operand must accept the unbracketed form");
    }

    /// one documented name: present in exactly its table, own symbol, documented arity for every usize n
    pub(crate) fn check_name(name: &str, table: u8) {
        let e = OPERATOR_MAP.get(name);
        let d = DATA_OPERATOR_MAP.get(name);
        let l = LAZY_OPERATOR_MAP.get(name);
        assert!(e.is_some() == (table == 0) && d.is_some() == (table == 1) && l.is_some() == (table == 2),
            "C02: documented operator name missing from its table, or present in another one");
        match table {
            0 => {
                let e = e.unwrap();
                check_entry(name, e.symbol, &e.num_params)
            }
            1 => {
                let d = d.unwrap();
                check_entry(name, d.symbol, &d.num_params)
            }
            _ => {
                let l = l.unwrap();
                check_entry(name, l.symbol, &l.num_params)
            }
        }
        kani::cover!(true, "entry checked");
    }
    macro_rules! name_harness {
        ($h:ident, $name:expr, $table:expr) => {
            #[cfg_attr(kani, kani::proof)]
            #[cfg_attr(kani, kani::unwind(24))]
            pub(crate) fn $h() {
                check_name($name, $table);
            }
        };
    }
//@GENERATED-NAMES
    //@ob name=C03.table.names0 harness=k_c03_names_0 props=C03,C02 strength=complete fns=op::OPERATOR_MAP,op::DATA_OPERATOR_MAP,op::LAZY_OPERATOR_MAP,op::NumParams::is_valid_len,op::NumParams::can_accept_unary replay=generic timeout=400
    //@ desc="`==` `!=` `===` `!==` `!`: each is a key of exactly its own compiled table, carries its own symbol, accepts n operands iff n is in its documented set for EVERY usize n, and accepts the unbracketed form whenever it accepts one operand"
    #[cfg_attr(kani, kani::proof)]
    #[cfg_attr(kani, kani::unwind(24))]
    pub(crate) fn k_c03_names_0() {
        check_name("==", 0);
        check_name("!=", 0);
        check_name("===", 0);
        check_name("!==", 0);
        check_name("!", 0);
    }
    //@ob name=C03.table.names1 harness=k_c03_names_1 props=C03,C02 strength=complete fns=op::OPERATOR_MAP,op::DATA_OPERATOR_MAP,op::LAZY_OPERATOR_MAP,op::NumParams::is_valid_len,op::NumParams::can_accept_unary replay=generic timeout=400
    //@ desc="`!!` `<` `<=` `>` `>=`: each is a key of exactly its own compiled table, carries its own symbol, accepts n operands iff n is in its documented set for EVERY usize n, and accepts the unbracketed form whenever it accepts one operand"
    #[cfg_attr(kani, kani::proof)]
    #[cfg_attr(kani, kani::unwind(24))]
    pub(crate) fn k_c03_names_1() {
        check_name("!!", 0);
        check_name("<", 0);
        check_name("<=", 0);
        check_name(">", 0);
        check_name(">=", 0);
    }
    //@ob name=C03.table.names2 harness=k_c03_names_2 props=C03,C02 strength=complete fns=op::OPERATOR_MAP,op::DATA_OPERATOR_MAP,op::LAZY_OPERATOR_MAP,op::NumParams::is_valid_len,op::NumParams::can_accept_unary replay=generic timeout=400
    //@ desc="`+` `-` `*` `/` `%`: each is a key of exactly its own compiled table, carries its own symbol, accepts n operands iff n is in its documented set for EVERY usize n, and accepts the unbracketed form whenever it accepts one operand"
    #[cfg_attr(kani, kani::proof)]
    #[cfg_attr(kani, kani::unwind(24))]
    pub(crate) fn k_c03_names_2() {
        check_name("+", 0);
        check_name("-", 0);
        check_name("*", 0);
        check_name("/", 0);
        check_name("%", 0);
    }
    //@ob name=C03.table.names3 harness=k_c03_names_3 props=C03,C02 strength=complete fns=op::OPERATOR_MAP,op::DATA_OPERATOR_MAP,op::LAZY_OPERATOR_MAP,op::NumParams::is_valid_len,op::NumParams::can_accept_unary replay=generic timeout=400
    //@ desc="`max` `min` `merge` `in` `cat`: each is a key of exactly its own compiled table, carries its own symbol, accepts n operands iff n is in its documented set for EVERY usize n, and accepts the unbracketed form whenever it accepts one operand"
    #[cfg_attr(kani, kani::proof)]
    #[cfg_attr(kani, kani::unwind(24))]
    pub(crate) fn k_c03_names_3() {
        check_name("max", 0);
        check_name("min", 0);
        check_name("merge", 0);
        check_name("in", 0);
        check_name("cat", 0);
    }
    //@ob name=C03.table.names4 harness=k_c03_names_4 props=C03,C02 strength=complete fns=op::OPERATOR_MAP,op::DATA_OPERATOR_MAP,op::LAZY_OPERATOR_MAP,op::NumParams::is_valid_len,op::NumParams::can_accept_unary replay=generic timeout=400
    //@ desc="`substr` `log` `var` `missing` `missing_some`: each is a key of exactly its own compiled table, carries its own symbol, accepts n operands iff n is in its documented set for EVERY usize n, and accepts the unbracketed form whenever it accepts one operand"
    #[cfg_attr(kani, kani::proof)]
    #[cfg_attr(kani, kani::unwind(24))]
    pub(crate) fn k_c03_names_4() {
        check_name("substr", 0);
        check_name("log", 0);
        check_name("var", 1);
        check_name("missing", 1);
        check_name("missing_some", 1);
    }
    //@ob name=C03.table.names5 harness=k_c03_names_5 props=C03,C02,C05 strength=complete fns=op::OPERATOR_MAP,op::DATA_OPERATOR_MAP,op::LAZY_OPERATOR_MAP,op::NumParams::is_valid_len,op::NumParams::can_accept_unary replay=generic timeout=400
    //@ desc="`if` `?:` `or` `and` `map`: each is a key of exactly its own compiled table, carries its own symbol, accepts n operands iff n is in its documented set for EVERY usize n, and accepts the unbracketed form whenever it accepts one operand"
    #[cfg_attr(kani, kani::proof)]
    #[cfg_attr(kani, kani::unwind(24))]
    pub(crate) fn k_c03_names_5() {
        check_name("if", 2);
        check_name("?:", 2);
        check_name("or", 2);
        check_name("and", 2);
        check_name("map", 2);
    }
    //@ob name=C03.table.names6 harness=k_c03_names_6 props=C03,C02 strength=complete fns=op::OPERATOR_MAP,op::DATA_OPERATOR_MAP,op::LAZY_OPERATOR_MAP,op::NumParams::is_valid_len,op::NumParams::can_accept_unary replay=generic timeout=400
    //@ desc="`filter` `reduce` `all` `some` `none`: each is a key of exactly its own compiled table, carries its own symbol, accepts n operands iff n is in its documented set for EVERY usize n, and accepts the unbracketed form whenever it accepts one operand"
    #[cfg_attr(kani, kani::proof)]
    #[cfg_attr(kani, kani::unwind(24))]
    pub(crate) fn k_c03_names_6() {
        check_name("filter", 2);
        check_name("reduce", 2);
        check_name("all", 2);
        check_name("some", 2);
        check_name("none", 2);
    }
//@END-GENERATED-NAMES

    //@ob name=C03.table.sizes props=C03,C02,C05 strength=complete fns=op::OPERATOR_MAP,op::DATA_OPERATOR_MAP,op::LAZY_OPERATOR_MAP replay=generic
    //@ desc="the three compiled tables have exactly 22 / 3 / 10 entries (so the 35 documented names are all there is); `if` and `?:` are bound to the same function"
    #[cfg_attr(kani, kani::proof)]
    pub(crate) fn k_c03_table_sizes() {
        assert!(OPERATOR_MAP.len() == 22, "eager table has an undocumented extra (or missing) entry");
        assert!(DATA_OPERATOR_MAP.len() == 3, "data table has an undocumented extra (or missing) entry");
        assert!(LAZY_OPERATOR_MAP.len() == 10, "lazy table has an undocumented extra (or missing) entry");
        let a = LAZY_OPERATOR_MAP.get("if").unwrap();
        let b = LAZY_OPERATOR_MAP.get("?:").unwrap();
        assert!(a.operator as usize == b.operator as usize, "C05: `?:` must be an exact alias of `if` (same function)");
        assert!(a.num_params.is_valid_len(&kani::any()) && b.num_params.is_valid_len(&kani::any()), "if / ?: accept any operand count");
        kani::cover!(true, "checked");
    }

    // =====================================================================================
    // C02: no key other than the 35 names is an operator (real phf lookup, symbolic key bytes)
    // =====================================================================================
    fn is_name(list: &[&str], k: &str) -> bool {
        let mut i = 0;
        while i < list.len() {
            if list[i] == k {
                return true;
            }
            i += 1;
        }
        false
    }
    pub(crate) fn check_keys<const N: usize>() {
        let s = if N == 0 { String::new() } else { any_ascii_string::<N>() };
        let s = MD::new(s);
        let k: &str = s.as_str();
        #[cfg(verif_replay)]
        eprintln!("REPLAY-INPUT: table lookup of key {:?}", k);
        assert!(OPERATOR_MAP.get(k).is_some() == is_name(&EAGER, k), "C02: eager table recognises a key that is not exactly an operator name (or misses one)");
        assert!(DATA_OPERATOR_MAP.get(k).is_some() == is_name(&DATA, k), "C02: data table recognises a key that is not exactly an operator name (or misses one)");
        assert!(LAZY_OPERATOR_MAP.get(k).is_some() == is_name(&LAZY, k), "C02: lazy table recognises a key that is not exactly an operator name (or misses one)");
        kani::cover!(true, "checked");
    }
    macro_rules! key_harness {
        ($name:ident, $n:expr) => {
            #[cfg_attr(kani, kani::proof)]
            #[cfg_attr(kani, kani::unwind(40))]
            pub(crate) fn $name() {
                check_keys::<$n>();
            }
        };
    }
//@GENERATED-KEYS
    //@ob name=C02.keys.len0 harness=k_c02_keys_len0 props=C02 tier=quick strength=bounded bound="every ASCII key of exactly 0 bytes (all 128^0 of them, symbolic); longest operator name has 12" fns=op::OPERATOR_MAP,op::DATA_OPERATOR_MAP,op::LAZY_OPERATOR_MAP replay=generic timeout=300
    //@ desc="for every key of this length: table.get(key) is Some iff key is exactly one of the operator names of that table (no prefix, case variant or padded spelling), on the real phf code"
    key_harness!(k_c02_keys_len0, 0);
    //@ob name=C02.keys.len1 harness=k_c02_keys_len1 props=C02 tier=quick strength=bounded bound="every ASCII key of exactly 1 bytes (all 128^1 of them, symbolic); longest operator name has 12" fns=op::OPERATOR_MAP,op::DATA_OPERATOR_MAP,op::LAZY_OPERATOR_MAP replay=generic timeout=300
    //@ desc="for every key of this length: table.get(key) is Some iff key is exactly one of the operator names of that table (no prefix, case variant or padded spelling), on the real phf code"
    key_harness!(k_c02_keys_len1, 1);
    //@ob name=C02.keys.len2 harness=k_c02_keys_len2 props=C02 tier=quick strength=bounded bound="every ASCII key of exactly 2 bytes (all 128^2 of them, symbolic); longest operator name has 12" fns=op::OPERATOR_MAP,op::DATA_OPERATOR_MAP,op::LAZY_OPERATOR_MAP replay=generic timeout=300
    //@ desc="for every key of this length: table.get(key) is Some iff key is exactly one of the operator names of that table (no prefix, case variant or padded spelling), on the real phf code"
    key_harness!(k_c02_keys_len2, 2);
    //@ob name=C02.keys.len3 harness=k_c02_keys_len3 props=C02 tier=quick strength=bounded bound="every ASCII key of exactly 3 bytes (all 128^3 of them, symbolic); longest operator name has 12" fns=op::OPERATOR_MAP,op::DATA_OPERATOR_MAP,op::LAZY_OPERATOR_MAP replay=generic timeout=300
    //@ desc="for every key of this length: table.get(key) is Some iff key is exactly one of the operator names of that table (no prefix, case variant or padded spelling), on the real phf code"
    key_harness!(k_c02_keys_len3, 3);
    //@ob name=C02.keys.len4 harness=k_c02_keys_len4 props=C02 tier=quick strength=bounded bound="every ASCII key of exactly 4 bytes (all 128^4 of them, symbolic); longest operator name has 12" fns=op::OPERATOR_MAP,op::DATA_OPERATOR_MAP,op::LAZY_OPERATOR_MAP replay=generic timeout=300
    //@ desc="for every key of this length: table.get(key) is Some iff key is exactly one of the operator names of that table (no prefix, case variant or padded spelling), on the real phf code"
    key_harness!(k_c02_keys_len4, 4);
    //@ob name=C02.keys.len5 harness=k_c02_keys_len5 props=C02 tier=quick strength=bounded bound="every ASCII key of exactly 5 bytes (all 128^5 of them, symbolic); longest operator name has 12" fns=op::OPERATOR_MAP,op::DATA_OPERATOR_MAP,op::LAZY_OPERATOR_MAP replay=generic timeout=300
    //@ desc="for every key of this length: table.get(key) is Some iff key is exactly one of the operator names of that table (no prefix, case variant or padded spelling), on the real phf code"
    key_harness!(k_c02_keys_len5, 5);
    //@ob name=C02.keys.len6 harness=k_c02_keys_len6 props=C02 tier=quick strength=bounded bound="every ASCII key of exactly 6 bytes (all 128^6 of them, symbolic); longest operator name has 12" fns=op::OPERATOR_MAP,op::DATA_OPERATOR_MAP,op::LAZY_OPERATOR_MAP replay=generic timeout=300
    //@ desc="for every key of this length: table.get(key) is Some iff key is exactly one of the operator names of that table (no prefix, case variant or padded spelling), on the real phf code"
    key_harness!(k_c02_keys_len6, 6);
    //@ob name=C02.keys.len7 harness=k_c02_keys_len7 props=C02 tier=thorough strength=bounded bound="every ASCII key of exactly 7 bytes (all 128^7 of them, symbolic); longest operator name has 12" fns=op::OPERATOR_MAP,op::DATA_OPERATOR_MAP,op::LAZY_OPERATOR_MAP replay=generic timeout=300
    //@ desc="for every key of this length: table.get(key) is Some iff key is exactly one of the operator names of that table (no prefix, case variant or padded spelling), on the real phf code"
    key_harness!(k_c02_keys_len7, 7);
    //@ob name=C02.keys.len8 harness=k_c02_keys_len8 props=C02 tier=thorough strength=bounded bound="every ASCII key of exactly 8 bytes (all 128^8 of them, symbolic); longest operator name has 12" fns=op::OPERATOR_MAP,op::DATA_OPERATOR_MAP,op::LAZY_OPERATOR_MAP replay=generic timeout=300
    //@ desc="for every key of this length: table.get(key) is Some iff key is exactly one of the operator names of that table (no prefix, case variant or padded spelling), on the real phf code"
    key_harness!(k_c02_keys_len8, 8);
    //@ob name=C02.keys.len9 harness=k_c02_keys_len9 props=C02 tier=thorough strength=bounded bound="every ASCII key of exactly 9 bytes (all 128^9 of them, symbolic); longest operator name has 12" fns=op::OPERATOR_MAP,op::DATA_OPERATOR_MAP,op::LAZY_OPERATOR_MAP replay=generic timeout=300
    //@ desc="for every key of this length: table.get(key) is Some iff key is exactly one of the operator names of that table (no prefix, case variant or padded spelling), on the real phf code"
    key_harness!(k_c02_keys_len9, 9);
    //@ob name=C02.keys.len10 harness=k_c02_keys_len10 props=C02 tier=thorough strength=bounded bound="every ASCII key of exactly 10 bytes (all 128^10 of them, symbolic); longest operator name has 12" fns=op::OPERATOR_MAP,op::DATA_OPERATOR_MAP,op::LAZY_OPERATOR_MAP replay=generic timeout=300
    //@ desc="for every key of this length: table.get(key) is Some iff key is exactly one of the operator names of that table (no prefix, case variant or padded spelling), on the real phf code"
    key_harness!(k_c02_keys_len10, 10);
    //@ob name=C02.keys.len11 harness=k_c02_keys_len11 props=C02 tier=thorough strength=bounded bound="every ASCII key of exactly 11 bytes (all 128^11 of them, symbolic); longest operator name has 12" fns=op::OPERATOR_MAP,op::DATA_OPERATOR_MAP,op::LAZY_OPERATOR_MAP replay=generic timeout=300
    //@ desc="for every key of this length: table.get(key) is Some iff key is exactly one of the operator names of that table (no prefix, case variant or padded spelling), on the real phf code"
    key_harness!(k_c02_keys_len11, 11);
    //@ob name=C02.keys.len12 harness=k_c02_keys_len12 props=C02 tier=thorough strength=bounded bound="every ASCII key of exactly 12 bytes (all 128^12 of them, symbolic); longest operator name has 12" fns=op::OPERATOR_MAP,op::DATA_OPERATOR_MAP,op::LAZY_OPERATOR_MAP replay=generic timeout=300
    //@ desc="for every key of this length: table.get(key) is Some iff key is exactly one of the operator names of that table (no prefix, case variant or padded spelling), on the real phf code"
    key_harness!(k_c02_keys_len12, 12);
    //@ob name=C02.keys.len13 harness=k_c02_keys_len13 props=C02 tier=thorough strength=bounded bound="every ASCII key of exactly 13 bytes (all 128^13 of them, symbolic); longest operator name has 12" fns=op::OPERATOR_MAP,op::DATA_OPERATOR_MAP,op::LAZY_OPERATOR_MAP replay=generic timeout=300
    //@ desc="for every key of this length: table.get(key) is Some iff key is exactly one of the operator names of that table (no prefix, case variant or padded spelling), on the real phf code"
    key_harness!(k_c02_keys_len13, 13);
//@END-GENERATED-KEYS

    // =====================================================================================
    // C02 / C03: op_from_map - which values are operations, operand wrapping, arity check
    // =====================================================================================
    fn obj1(key: &str, val: Value) -> Value {
        let mut m = Map::new();
        m.insert(String::from(key), val);
        Value::Object(m)
    }
    fn nulls(n: usize) -> Value {
        let mut v = Vec::with_capacity(8);
        let mut i = 0;
        while i < n {
            v.push(Value::Null);
            i += 1;
        }
        Value::Array(v)
    }

    /// every table agrees a value is not an operation
    fn assert_not_op(v: &Value) {
        assert!(matches!(op_from_map(&OPERATOR_MAP, v), Ok(None)), "C02: a literal was taken for an eager operation");
        assert!(matches!(op_from_map(&DATA_OPERATOR_MAP, v), Ok(None)), "C02: a literal was taken for a data operation");
        assert!(matches!(op_from_map(&LAZY_OPERATOR_MAP, v), Ok(None)), "C02: a literal was taken for a lazy operation");
    }

    //@ob name=C02.op_from_map.non_objects props=C02,C01 strength=complete fns=op::op_from_map replay=generic stubs=1
    //@ desc="op_from_map(table, v) is Ok(None) for every table and every non-object v: null, any bool, any JSON number, strings, arrays"
    #[cfg_attr(kani, kani::proof)]
    #[cfg_attr(kani, kani::stub(std::fmt::format, crate::verif_support::fmt_stub))]
    pub(crate) fn k_c02_op_from_map_non_objects() {
        let v0 = MD::new(Value::Null);
        let v1 = MD::new(Value::Bool(kani::any()));
        let v2 = MD::new(Value::Number(any_number()));
        let v3 = MD::new(Value::String(any_ascii_string::<2>()));
        let v4 = MD::new(Value::Array(vec![Value::String(String::from("=="))]));
        assert_not_op(&v0);
        assert_not_op(&v1);
        assert_not_op(&v2);
        assert_not_op(&v3);
        assert_not_op(&v4);
        kani::cover!(true, "checked");
    }

    macro_rules! not_op_harness {
        ($h:ident, $mk:expr) => {
            #[cfg_attr(kani, kani::proof)]
            #[cfg_attr(kani, kani::unwind(8))]
            #[cfg_attr(kani, kani::stub(std::fmt::format, crate::verif_support::fmt_stub))]
            pub(crate) fn $h() {
                let v = MD::new($mk);
                #[cfg(verif_replay)]
                eprintln!("REPLAY-INPUT: op_from_map(table, {})", &*v);
                assert_not_op(&v);
                kani::cover!(true, "checked");
            }
        };
    }
    //@ob name=C02.op_from_map.empty_object harness=k_c02_ofm_empty props=C02,C01 strength=bounded bound="the value {}" fns=op::op_from_map replay=generic stubs=1
    //@ desc="the empty object is not an operation"
    not_op_harness!(k_c02_ofm_empty, Value::Object(Map::new()));
    // (objects with two keys / unknown keys: BTreeMap-backed objects do not finish in CBMC; V:op_from_map covers them for all maps)

    // =====================================================================================
    // C04 / C08: Operation::evaluate / DataOperation::evaluate - every operand expression is evaluated exactly
    // once, in order, against the data; the operator receives the outcomes in order, as distinct fresh values
    // (so the pointer-identity shortcut of strict_eq cannot fire through the rule interface).
    // =====================================================================================
    pub(crate) static mut REC_LEN: usize = usize::MAX;
    pub(crate) static mut REC_VAL: [u64; 4] = [0; 4];
    pub(crate) static mut REC_PTR: [*const Value; 4] = [std::ptr::null(); 4];
    pub(crate) static mut REC_DATA: *const Value = std::ptr::null();
    fn rec_items(items: &Vec<&Value>) {
        unsafe {
            REC_LEN = items.len();
            if items.len() > 0 {
                REC_PTR[0] = items[0] as *const Value;
                REC_VAL[0] = ev::fingerprint(items[0]);
            }
            if items.len() > 1 {
                REC_PTR[1] = items[1] as *const Value;
                REC_VAL[1] = ev::fingerprint(items[1]);
            }
            if items.len() > 2 {
                REC_PTR[2] = items[2] as *const Value;
                REC_VAL[2] = ev::fingerprint(items[2]);
            }
        }
    }
    fn rec_operator(items: &Vec<&Value>) -> Result<Value, Error> {
        rec_items(items);
        Ok(Value::Null)
    }
    fn rec_data_operator(data: &Value, items: &Vec<&Value>) -> Result<Value, Error> {
        unsafe { REC_DATA = data as *const Value };
        rec_items(items);
        Ok(Value::Null)
    }
    /// `epat` bit i: operand i evaluates successfully; class New for even i, Raw for odd i
    pub(crate) fn body_operation_evaluate(n: usize, epat: u32, data_op: bool) {
        let u: [u64; 3] = [kani::any(), kani::any(), kani::any()];
        let nodes = [MD::new(Value::Null), MD::new(Value::Null), MD::new(Value::Null)];
        let outs = [
            MD::new(Value::Number(Number::from(u[0]))),
            MD::new(Value::Number(Number::from(u[1]))),
            MD::new(Value::Number(Number::from(u[2]))),
        ];
        let data = MD::new(Value::Bool(true));
        let mut parsed: Vec<Parsed> = Vec::with_capacity(3);
        let mut i = 0;
        while i < n {
            let class = if (epat >> i) & 1 == 1 { if i % 2 == 0 { 1 } else { 2 } } else { 0 };
            ev::register_num(&nodes[i], class, &*outs[i] as *const Value, u[i]);
            parsed.push(Parsed::verif_from_value_stub(&nodes[i]).unwrap());
            i += 1;
        }
        let op = Operator { symbol: "rec", operator: rec_operator, num_params: NumParams::Any };
        let dop = DataOperator { symbol: "rec", operator: rec_data_operator, num_params: NumParams::Any };
        let r = if data_op {
            let o = MD::new(DataOperation { operator: &dop, arguments: parsed });
            MD::new(o.evaluate(&data).map(|_| ()))
        } else {
            let o = MD::new(Operation { operator: &op, arguments: parsed });
            MD::new(o.evaluate(&data).map(|_| ()))
        };
        kani::cover!(true, "returned");
        // spec
        let mut first_err = n;
        let mut i = 0;
        while i < n {
            if (epat >> i) & 1 == 0 && first_err == n {
                first_err = i;
            }
            i += 1;
        }
        let evaluated = if first_err < n { first_err + 1 } else { n };
        assert!(ev::log_len() == evaluated, "each operand expression is evaluated exactly once, left to right, stopping at the first error");
        let mut k = 0;
        while k < evaluated {
            let (node, d) = ev::log_at(k);
            assert!(node == k && d == &*data as *const Value, "operands are evaluated in order against the data");
            k += 1;
        }
        if first_err < n {
            assert!(r.is_err() && unsafe { REC_LEN } == usize::MAX, "a failing operand must make the operation fail without running the operator");
        } else {
            assert!(r.is_ok() && unsafe { REC_LEN } == n, "the operator receives exactly one value per operand");
            let mut k = 0;
            while k < n {
                assert!(unsafe { REC_VAL[k] } == u[k], "the operator receives the operands' values in order");
                let mut j = 0;
                while j < k {
                    assert!(unsafe { REC_PTR[k] != REC_PTR[j] }, "C08: the values handed to an operator are distinct instances");
                    j += 1;
                }
                assert!(unsafe { REC_PTR[k] } != &*outs[k] as *const Value, "C08: the values handed to an operator are fresh, never the caller's own");
                k += 1;
            }
            if data_op {
                assert!(unsafe { REC_DATA } == &*data as *const Value, "a data operator receives the data itself");
            }
        }
    }
    macro_rules! opeval_harness {
        ($name:ident, $n:expr, $epat:expr, $data_op:expr) => {
            #[cfg_attr(kani, kani::proof)]
            #[cfg_attr(kani, kani::unwind(6))]
            #[cfg_attr(kani, kani::stub(<serde_json::Value as std::clone::Clone>::clone, crate::verif_support::value_clone_shallow))]
            #[cfg_attr(kani, kani::stub(crate::value::Parsed::evaluate, crate::value::Parsed::verif_evaluate_stub))]
            #[cfg_attr(kani, kani::stub(std::fmt::format, crate::verif_support::fmt_stub))]
            pub(crate) fn $name() {
                body_operation_evaluate($n, $epat, $data_op);
            }
        };
    }
    //@ob name=C04.operation_evaluate.0 harness=k_c04_opeval_0 props=C04,C08,C01 strength=bounded bound="0 operands" fns=op::Operation::evaluate stubs=3 timeout=600 cutdrop=1 group=medium
    //@ desc="Operation::evaluate with no operands runs the operator on an empty list"
    opeval_harness!(k_c04_opeval_0, 0, 0, false);
    //@ob name=C04.operation_evaluate.2 harness=k_c04_opeval_2 props=C04,C08,C01 tier=off strength=bounded bound="2 operands, both succeed (one fresh, one borrowed outcome); values symbolic" fns=op::Operation::evaluate stubs=3 timeout=600 cutdrop=1 group=medium
    //@ desc="Operation::evaluate: each operand evaluated exactly once, in order, against the data; the operator gets the values in order as distinct fresh instances"
    opeval_harness!(k_c04_opeval_2, 2, 3, false);
    //@ob name=C04.operation_evaluate.3 harness=k_c04_opeval_3 props=C04,C08,C01 tier=off strength=bounded bound="3 operands, all succeed" fns=op::Operation::evaluate stubs=3 timeout=600 cutdrop=1 group=medium
    //@ desc="Operation::evaluate with three operands"
    opeval_harness!(k_c04_opeval_3, 3, 7, false);
    //@ob name=C04.operation_evaluate.2err harness=k_c04_opeval_2err props=C04,C01 tier=off strength=bounded bound="2 operands, the first fails" fns=op::Operation::evaluate stubs=3 timeout=300 cutdrop=1 group=heavy
    //@ desc="Operation::evaluate: a failing operand fails the operation, later operands are not evaluated, the operator does not run"
    opeval_harness!(k_c04_opeval_2err, 2, 2, false);
    //@ob name=C04.data_operation_evaluate.2 harness=k_c04_dopeval_2 props=C04,C01 tier=off strength=bounded bound="2 operands, both succeed" fns=op::DataOperation::evaluate stubs=3 timeout=300 cutdrop=1 group=medium
    //@ desc="DataOperation::evaluate: operands evaluated once each, in order; the data operator receives the data and the values"
    opeval_harness!(k_c04_dopeval_2, 2, 3, true);

    // =====================================================================================
    // Table bindings (C05, C06, C07, C08, C09, C10, C13-C16): each operator name is bound to the function
    // that implements it. The callee is replaced by a contract stub that records its arguments and
    // returns a planned / sentinel result; the harness runs `TABLE.get(name).execute(..)` on the REAL
    // compiled table and closure.
    // =====================================================================================
    pub(crate) static mut B_CALLS: u32 = 0;
    pub(crate) static mut B_ARG: [*const Value; 2] = [std::ptr::null(); 2];
    pub(crate) static mut B_BOOL: bool = false;
    pub(crate) static mut B_F64: f64 = 0.0;
    pub(crate) static mut B_OK: bool = true;
    fn rec2(a: &Value, b: &Value) {
        unsafe {
            B_CALLS += 1;
            B_ARG[0] = a as *const Value;
            B_ARG[1] = b as *const Value;
        }
    }
    pub(crate) fn bool2_stub(a: &Value, b: &Value) -> bool {
        rec2(a, b);
        unsafe { B_BOOL }
    }
    pub(crate) fn bool1_stub(a: &Value) -> bool {
        unsafe {
            B_CALLS += 1;
            B_ARG[0] = a as *const Value;
            B_BOOL
        }
    }
    pub(crate) fn f64_2_stub(a: &Value, b: &Value) -> Result<f64, Error> {
        rec2(a, b);
        if unsafe { B_OK } { Ok(unsafe { B_F64 }) } else { Err(Error::UnexpectedError(String::new())) }
    }
    pub(crate) fn f64_1_stub(a: &Value) -> Result<f64, Error> {
        unsafe {
            B_CALLS += 1;
            B_ARG[0] = a as *const Value;
        }
        if unsafe { B_OK } { Ok(unsafe { B_F64 }) } else { Err(Error::UnexpectedError(String::new())) }
    }
    pub(crate) static mut B_VEC: *const Vec<&'static Value> = std::ptr::null();
    pub(crate) fn f64_vec_stub(items: &Vec<&Value>) -> Result<f64, Error> {
        unsafe {
            B_CALLS += 1;
            B_VEC = items as *const Vec<&Value> as *const Vec<&'static Value>;
        }
        if unsafe { B_OK } { Ok(unsafe { B_F64 }) } else { Err(Error::UnexpectedError(String::new())) }
    }
    fn two_items() -> (MD<Value>, MD<Value>) {
        (MD::new(Value::Null), MD::new(Value::Bool(true)))
    }

    /// which: 0 "==" 1 "!=" 2 "===" 3 "!==" 4 "<" 5 "<=" 6 ">" 7 ">="
    pub(crate) fn body_bind_bool2(name: &str) {
        let (x, y) = two_items();
        let b: bool = kani::any();
        unsafe { B_BOOL = b };
        let mut items: Vec<&Value> = Vec::with_capacity(2);
        items.push(&*x);
        items.push(&*y);
        let items = MD::new(items);
        let r = MD::new(OPERATOR_MAP.get(name).unwrap().execute(&items));
        kani::cover!(true, "returned");
        assert!(matches!(&*r, Ok(Value::Bool(v)) if *v == b), "table binding: the operator must return exactly the boolean its js_op function computes");
        assert!(unsafe { B_CALLS } == 1 && unsafe { B_ARG[0] } == &*x as *const Value && unsafe { B_ARG[1] } == &*y as *const Value,
            "table binding: the operator must call its own js_op function once, with the operands in order");
    }
    macro_rules! bind_bool2 {
        ($h:ident, $name:expr, $target:path) => {
            #[cfg_attr(kani, kani::proof)]
            #[cfg_attr(kani, kani::stub($target, bool2_stub))]
            #[cfg_attr(kani, kani::stub(std::fmt::format, crate::verif_support::fmt_stub))]
            pub(crate) fn $h() {
                body_bind_bool2($name);
            }
        };
    }
    //@ob name=C07.bind.eq harness=k_bind_eq props=C07 strength=complete fns=op::OPERATOR_MAP stubs=2 timeout=300
    //@ desc="`==` (two operands) returns Bool(js_op::abstract_eq(a, b)): the table entry is bound to abstract equality, operands in order"
    bind_bool2!(k_bind_eq, "==", crate::js_op::abstract_eq);
    //@ob name=C07.bind.ne harness=k_bind_ne props=C07 strength=complete fns=op::OPERATOR_MAP stubs=2 timeout=300
    //@ desc="`!=` returns Bool(js_op::abstract_ne(a, b))"
    bind_bool2!(k_bind_ne, "!=", crate::js_op::abstract_ne);
    //@ob name=C08.bind.seq harness=k_bind_seq props=C08 strength=complete fns=op::OPERATOR_MAP stubs=2 timeout=300
    //@ desc="`===` returns Bool(js_op::strict_eq(a, b))"
    bind_bool2!(k_bind_seq, "===", crate::js_op::strict_eq);
    //@ob name=C08.bind.sne harness=k_bind_sne props=C08 strength=complete fns=op::OPERATOR_MAP stubs=2 timeout=300
    //@ desc="`!==` returns Bool(js_op::strict_ne(a, b))"
    bind_bool2!(k_bind_sne, "!==", crate::js_op::strict_ne);
    //@ob name=C09.bind.lt harness=k_bind_lt props=C09 strength=complete fns=op::OPERATOR_MAP,op::numeric::lt stubs=2 timeout=300
    //@ desc="`<` on two operands returns Bool(js_op::abstract_lt(a, b))"
    bind_bool2!(k_bind_lt, "<", crate::js_op::abstract_lt);
    //@ob name=C09.bind.lte harness=k_bind_lte props=C09 strength=complete fns=op::OPERATOR_MAP,op::numeric::lte stubs=2 timeout=300
    //@ desc="`<=` on two operands returns Bool(js_op::abstract_lte(a, b))"
    bind_bool2!(k_bind_lte, "<=", crate::js_op::abstract_lte);
    //@ob name=C09.bind.gt harness=k_bind_gt props=C09 strength=complete fns=op::OPERATOR_MAP,op::numeric::gt stubs=2 timeout=300
    //@ desc="`>` on two operands returns Bool(js_op::abstract_gt(a, b))"
    bind_bool2!(k_bind_gt, ">", crate::js_op::abstract_gt);
    //@ob name=C09.bind.gte harness=k_bind_gte props=C09 strength=complete fns=op::OPERATOR_MAP,op::numeric::gte stubs=2 timeout=300
    //@ desc="`>=` on two operands returns Bool(js_op::abstract_gte(a, b))"
    bind_bool2!(k_bind_gte, ">=", crate::js_op::abstract_gte);

    pub(crate) fn body_bind_truthy(name: &str, negate: bool) {
        let x = MD::new(Value::Null);
        let b: bool = kani::any();
        unsafe { B_BOOL = b };
        let mut items: Vec<&Value> = Vec::with_capacity(1);
        items.push(&*x);
        let items = MD::new(items);
        let r = MD::new(OPERATOR_MAP.get(name).unwrap().execute(&items));
        kani::cover!(true, "returned");
        assert!(matches!(&*r, Ok(Value::Bool(v)) if *v == (b != negate)), "`!!` is the boolean of the truthiness table and `!` its exact negation");
        assert!(unsafe { B_CALLS } == 1 && unsafe { B_ARG[0] } == &*x as *const Value, "`!` / `!!` decide by logic::truthy of their operand");
    }
    //@ob name=C06.bind.not props=C06 strength=complete fns=op::OPERATOR_MAP stubs=2 timeout=300
    //@ desc="`!` returns Bool(!truthy(x)) - decided by the shared truthiness function (by contract: an arbitrary boolean)"
    #[cfg_attr(kani, kani::proof)]
    #[cfg_attr(kani, kani::stub(crate::op::logic::truthy, bool1_stub))]
    #[cfg_attr(kani, kani::stub(std::fmt::format, crate::verif_support::fmt_stub))]
    pub(crate) fn k_bind_not() {
        body_bind_truthy("!", true);
    }
    //@ob name=C06.bind.notnot props=C06 strength=complete fns=op::OPERATOR_MAP stubs=2 timeout=300
    //@ desc="`!!` returns Bool(truthy(x))"
    #[cfg_attr(kani, kani::proof)]
    #[cfg_attr(kani, kani::stub(crate::op::logic::truthy, bool1_stub))]
    #[cfg_attr(kani, kani::stub(std::fmt::format, crate::verif_support::fmt_stub))]
    pub(crate) fn k_bind_notnot() {
        body_bind_truthy("!!", false);
    }

    /// arithmetic operators: result = to_number_value(what the js_op helper returned); helper error => error
    pub(crate) fn body_bind_arith(name: &str, arity: usize, vec_callee: bool) {
        let (x, y) = two_items();
        let v: f64 = kani::any();
        let ok: bool = kani::any();
        unsafe {
            B_F64 = v;
            B_OK = ok;
        }
        let mut items: Vec<&Value> = Vec::with_capacity(2);
        items.push(&*x);
        if arity == 2 {
            items.push(&*y);
        }
        let items = MD::new(items);
        let r = MD::new(OPERATOR_MAP.get(name).unwrap().execute(&items));
        kani::cover!(true, "returned");
        assert!(unsafe { B_CALLS } == 1, "arithmetic operator must call its js_op helper exactly once");
        if vec_callee {
            assert!(unsafe { B_VEC } == &*items as *const Vec<&Value> as *const Vec<&'static Value>, "the fold helper receives the operand list itself");
        } else {
            assert!(unsafe { B_ARG[0] } == &*x as *const Value && (arity == 1 || unsafe { B_ARG[1] } == &*y as *const Value), "operands are passed in order");
        }
        if !ok {
            assert!(r.is_err(), "a non-numeric operand is an error, never a number");
        } else {
            assert!(crate::value::verif_value::post_to_number_value(v, &r), "the result is the JSON number for the helper's double (error iff not finite)");
        }
    }
    macro_rules! bind_arith {
        ($h:ident, $name:expr, $arity:expr, $vec:expr, $target:path, $stub:path) => {
            #[cfg_attr(kani, kani::proof)]
            #[cfg_attr(kani, kani::stub($target, $stub))]
            #[cfg_attr(kani, kani::stub(std::fmt::format, crate::verif_support::fmt_stub))]
            pub(crate) fn $h() {
                body_bind_arith($name, $arity, $vec);
            }
        };
    }
    //@ob name=C10.bind.plus harness=k_bind_plus props=C10 strength=complete fns=op::OPERATOR_MAP stubs=2 timeout=300
    //@ desc="`+` = to_number_value(js_op::parse_float_add(operands)) for every double the fold can return; fold error => error"
    bind_arith!(k_bind_plus, "+", 2, true, crate::js_op::parse_float_add, f64_vec_stub);
    //@ob name=C10.bind.mul harness=k_bind_mul props=C10 strength=complete fns=op::OPERATOR_MAP stubs=2 timeout=300
    //@ desc="`*` = to_number_value(js_op::parse_float_mul(operands))"
    bind_arith!(k_bind_mul, "*", 2, true, crate::js_op::parse_float_mul, f64_vec_stub);
    //@ob name=C10.bind.max harness=k_bind_max props=C10 strength=complete fns=op::OPERATOR_MAP stubs=2 timeout=300
    //@ desc="`max` = to_number_value(js_op::abstract_max(operands))"
    bind_arith!(k_bind_max, "max", 2, true, crate::js_op::abstract_max, f64_vec_stub);
    //@ob name=C10.bind.min harness=k_bind_min props=C10 strength=complete fns=op::OPERATOR_MAP stubs=2 timeout=300
    //@ desc="`min` = to_number_value(js_op::abstract_min(operands))"
    bind_arith!(k_bind_min, "min", 2, true, crate::js_op::abstract_min, f64_vec_stub);
    //@ob name=C10.bind.div harness=k_bind_div props=C10 strength=complete fns=op::OPERATOR_MAP stubs=2 timeout=300
    //@ desc="`/` = to_number_value(js_op::abstract_div(a, b)), operands in order"
    bind_arith!(k_bind_div, "/", 2, false, crate::js_op::abstract_div, f64_2_stub);
    //@ob name=C10.bind.mod harness=k_bind_mod props=C10 strength=complete fns=op::OPERATOR_MAP stubs=2 timeout=300
    //@ desc="`%` = to_number_value(js_op::abstract_mod(a, b)), operands in order"
    bind_arith!(k_bind_mod, "%", 2, false, crate::js_op::abstract_mod, f64_2_stub);
    //@ob name=C10.bind.minus2 harness=k_bind_minus2 props=C10 strength=complete fns=op::OPERATOR_MAP,op::numeric::minus stubs=2 timeout=300
    //@ desc="`-` with two operands = to_number_value(js_op::abstract_minus(a, b))"
    bind_arith!(k_bind_minus2, "-", 2, false, crate::js_op::abstract_minus, f64_2_stub);
    //@ob name=C10.bind.minus1 harness=k_bind_minus1 props=C10 strength=complete fns=op::OPERATOR_MAP,op::numeric::minus stubs=2 timeout=300
    //@ desc="`-` with one operand = to_number_value(js_op::to_negative(a))"
    bind_arith!(k_bind_minus1, "-", 1, false, crate::js_op::to_negative, f64_1_stub);
}

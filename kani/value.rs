#[cfg(any(kani, verif_replay))]
#[allow(dead_code, unused_imports, unused_variables, unused_macros, unused_mut)]
pub(crate) mod verif_value {
    use super::*;
    #[cfg(verif_replay)]
    use crate::verif_support::shim as kani;
    use crate::verif_support::*;

    const TWO63: f64 = 9223372036854775808.0;
    const TWO64: f64 = 18446744073709551616.0;

    /// post_to_number_value: the C10 statement about the f64 -> JSON number step.
    pub(crate) fn post_to_number_value(x: f64, r: &Result<Value, Error>) -> bool {
        match r {
            Err(_) => !x.is_finite(),
            Ok(Value::Number(n)) => {
                if !x.is_finite() {
                    return false;
                }
                let back = match n.as_f64() {
                    Some(b) => b,
                    None => return false,
                };
                let integral = x == x.trunc();
                let fits = x >= -TWO63 && x < TWO64;
                back == x && ((integral && fits) == (n.is_i64() || n.is_u64()))
            }
            Ok(_) => false,
        }
    }

    //@ob name=C10.to_number_value.exact props=C10,C01 strength=complete fns=value::to_number_value replay=generic stubs=1
    //@ desc="for every f64 bit pattern x: Err iff x is not finite; otherwise a JSON number n with n.as_f64()==x, spelled as a JSON integer iff x is integral and -2^63<=x<2^64; no panic, no overflow"
    #[cfg_attr(kani, kani::proof)]
    #[cfg_attr(kani, kani::stub(std::fmt::format, crate::verif_support::fmt_stub))]
    pub(crate) fn k_c10_to_number_value_exact() {
        let x: f64 = kani::any();
        let r = MD::new(to_number_value(x));
        kani::cover!(r.is_ok());
        kani::cover!(r.is_err());
        assert!(post_to_number_value(x, &r), "to_number_value: result is not the exact JSON number for the double (or error/finite mismatch)");
    }

    // ------------------------------------------------------------------ C02: literals evaluate to themselves
    /// `Parsed::from_value(v)` for a value that is not an operation is `Raw` holding THE POINTER v, and
    /// evaluating it returns that same pointer whatever the data is: nothing inside is looked at.
    fn same_literal(a: &Value, b: &Value) -> bool {
        match (a, b) {
            (Value::Null, Value::Null) => true,
            (Value::Bool(x), Value::Bool(y)) => x == y,
            (Value::Number(x), Value::Number(y)) => x == y,
            (Value::String(x), Value::String(y)) => x.len() == y.len(),
            (Value::Array(x), Value::Array(y)) => x.len() == y.len(),
            (Value::Object(x), Value::Object(y)) => x.len() == y.len(),
            _ => false,
        }
    }
    fn check_literal(v: &Value, data: &Value) {
        let p = MD::new(Parsed::from_value(v));
        match &*p {
            Ok(Parsed::Raw(r)) => {
                assert!(std::ptr::eq(r.value, v), "C02: a literal must be kept as the very value that was given");
                let e = MD::new(r.evaluate(data));
                match &*e {
                    // the literal itself (borrowed) ...
                    Ok(Evaluated::Raw(out)) => assert!(std::ptr::eq(*out, v), "C02: a literal evaluates to itself, whatever the data"),
                    // ... or - equally fine for the property - a copy: same kind, same scalar / same number spelling / same
                    // length (strings and containers are compared by length only: equality of heap data is not tractable here)
                    Ok(Evaluated::New(out)) => assert!(same_literal(out, v), "C02: a literal evaluates to itself (structurally identical, same number spelling), whatever the data"),
                    _ => assert!(false, "C02: evaluating a literal must not be an error"),
                }
            }
            _ => assert!(false, "C02: a value that is not a single-key object keyed by an operator name was not parsed as a literal"),
        }
    }
    /// contract stub: `to_number_value` is some JSON number or an error - a literal must not depend on it
    pub(crate) fn any_number_value_stub(_x: f64) -> Result<Value, Error> {
        if kani::any() {
            Ok(Value::Number(Number::from(kani::any::<i64>())))
        } else {
            Err(Error::UnexpectedError(String::new()))
        }
    }
    macro_rules! literal_harness {
        ($name:ident, $mk:expr) => {
            #[cfg_attr(kani, kani::proof)]
            #[cfg_attr(kani, kani::stub(std::fmt::format, crate::verif_support::fmt_stub))]
            #[cfg_attr(kani, kani::stub(crate::value::to_number_value, any_number_value_stub))]
            pub(crate) fn $name() {
                let v = MD::new($mk);
                let data = MD::new(Value::Number(any_number()));
                #[cfg(verif_replay)]
                eprintln!("REPLAY-INPUT: apply({}, {})", &*v, &*data);
                check_literal(&v, &data);
                kani::cover!(true, "checked");
            }
        };
    }
    //@ob name=C02.literal.null harness=k_c02_literal_null props=C02,C01 strength=complete fns=value::Parsed::from_value,value::Raw::from_value,value::Raw::evaluate stubs=2 timeout=200
    //@ desc="null is parsed as a literal holding the same pointer and evaluates to that pointer for every data"
    literal_harness!(k_c02_literal_null, Value::Null);
    //@ob name=C02.literal.bool harness=k_c02_literal_bool props=C02,C01 strength=complete fns=value::Parsed::from_value,value::Raw::from_value,value::Raw::evaluate stubs=2 timeout=200
    //@ desc="every boolean is a literal"
    literal_harness!(k_c02_literal_bool, Value::Bool(kani::any()));
    //@ob name=C02.literal.number harness=k_c02_literal_number props=C02,C01 strength=complete fns=value::Parsed::from_value,value::Raw::from_value,value::Raw::evaluate stubs=2 timeout=200
    //@ desc="every JSON number (any i64 / u64 / finite f64) is a literal"
    literal_harness!(k_c02_literal_number, Value::Number(any_number()));
    //@ob name=C02.literal.string harness=k_c02_literal_string props=C02,C01 strength=bounded bound="strings of 2 symbolic ASCII bytes (e.g. \"==\", \"if\": operator names as strings are not operations)" fns=value::Parsed::from_value,value::Raw::from_value,value::Raw::evaluate stubs=2 timeout=200
    //@ desc="a string, even one spelling an operator name, is a literal"
    literal_harness!(k_c02_literal_string, Value::String(any_ascii_string::<2>()));
    //@ob name=C02.literal.array harness=k_c02_literal_array props=C02,C01 strength=bounded bound="the arrays [] and [\"==\", null]" fns=value::Parsed::from_value,value::Raw::from_value,value::Raw::evaluate stubs=2 timeout=200
    //@ desc="an array is a literal: nothing inside it is parsed or evaluated"
    literal_harness!(k_c02_literal_array, if kani::any() { Value::Array(Vec::with_capacity(1)) } else { Value::Array(vec![Value::String(String::from("==")), Value::Null]) });
    //@ob name=C02.literal.empty_object harness=k_c02_literal_empty_object props=C02,C01 strength=bounded bound="the value {}" fns=value::Parsed::from_value,value::Raw::from_value,value::Raw::evaluate stubs=2 timeout=200
    //@ desc="the empty object is a literal"
    literal_harness!(k_c02_literal_empty_object, Value::Object(serde_json::Map::new()));

    // ------------------------------------------------------------------ evaluator contract stubs
    impl<'a> Parsed<'a> {
        /// contract stub for `Parsed::from_value`: only rule text may be parsed (C04).
        pub(crate) fn verif_from_value_stub(value: &'a Value) -> Result<Self, Error> {
            match ev::node_index(value as *const Value) {
                Some(i) => unsafe {
                    ev::PARSE_COUNT[i] += 1;
                    // outcome class 3: an expression that is invalid at PARSE time (wrong arity, ...)
                    if ev::OUT_CLASS[i] == 3 {
                        return Err(Error::UnexpectedError(String::new()));
                    }
                },
                None => {
                    unsafe { ev::FOREIGN_PARSE = true };
                    assert!(false, "C04: the parser was applied to a value that is not rule text (data / computed value re-interpreted)");
                }
            }
            Ok(Parsed::Raw(Raw { value }))
        }
        /// contract stub for `Parsed::evaluate`: log (node, data) and return the node's planned outcome.
        pub(crate) fn verif_evaluate_stub(&self, data: &'a Value) -> Result<Evaluated, Error> {
            let p = match self {
                Parsed::Raw(r) => r.value as *const Value,
                _ => {
                    assert!(false, "evaluate on a Parsed the contract stub did not hand out");
                    std::ptr::null()
                }
            };
            let i = match ev::node_index(p) {
                Some(i) => i,
                None => {
                    assert!(false, "evaluate on an unregistered node");
                    0
                }
            };
            unsafe {
                let k = ev::LOG_N;
                assert!(k < 16, "evaluation log overflow");
                ev::LOG_NODE[k] = i;
                ev::LOG_DATA[k] = data as *const Value;
                ev::LOG_DATA_FP[k] = ev::fingerprint(data);
                ev::LOG_N = k + 1;
                let (class, out, is_num, u) = if i == ev::MULTI_NODE {
                    let c = ev::MULTI_CALLS;
                    assert!(c < 6, "per-element node evaluated more often than planned");
                    ev::MULTI_CALLS = c + 1;
                    (ev::MULTI_CLASS[c], ev::MULTI_VAL[c], ev::MULTI_IS_NUM[c], ev::MULTI_U64[c])
                } else {
                    (ev::OUT_CLASS[i], ev::OUT_VAL[i], ev::OUT_IS_NUM[i], ev::OUT_U64[i])
                };
                match class {
                    0 => Err(Error::UnexpectedError(String::new())),
                    1 => {
                        if is_num {
                            // a fresh number built here from the planned u64: its tag is a constant for CBMC (a clone
                            // read back through a pointer is not, and then every drop / match on it explores all six
                            // variants of Value: measured > 300 s vs 30 s)
                            Ok(Evaluated::New(Value::Number(ev::outcome_number(i, u))))
                        } else {
                            Ok(Evaluated::New(crate::verif_support::value_clone_shallow(&*out)))
                        }
                    }
                    _ => Ok(Evaluated::Raw(&*out)),
                }
            }
        }
    }
}

#[cfg(any(kani, verif_replay))]
#[allow(dead_code, unused_imports, unused_variables, unused_macros, unused_mut, static_mut_refs)]
pub(crate) mod verif_data {
    use super::*;
    #[cfg(verif_replay)]
    use crate::verif_support::shim as kani;
    use crate::verif_support::*;

    /// C11: index counted from the front (idx >= 0) or from the end (idx < 0); None when out of range.
    pub(crate) fn spec_get_index(len: usize, idx: i64) -> Option<usize> {
        let l = len as i128;
        let i = idx as i128;
        if i >= 0 {
            if i < l { Some(i as usize) } else { None }
        } else if -i <= l {
            Some((l + i) as usize)
        } else {
            None
        }
    }

    //@ob name=C11.get.all_i64 props=C11,C01 strength=complete fns=op::data::get replay=generic pair=V:data.get
    //@ desc="get(slice, idx) on slices of length 0..4 and EVERY i64 idx (incl. i64::MIN): the element counted from the front / from the end, None out of range; no overflow panic (bit-precise twin of the unbounded Verus obligation, and its counterexample source)"
    #[cfg_attr(kani, kani::proof)]
    pub(crate) fn k_c11_get_all_i64() {
        let data: [u8; 4] = [10, 11, 12, 13];
        let len: usize = kani::any();
        kani::assume(len <= 4);
        let idx: i64 = kani::any();
        #[cfg(verif_replay)]
        eprintln!("REPLAY-INPUT: get(&{:?}, {})", &data[..len], idx);
        let r = get(&data[..len], idx);
        kani::cover!(r.is_some());
        kani::cover!(r.is_none());
        match spec_get_index(len, idx) {
            Some(k) => assert!(r == Some(&data[k]), "get: wrong element for the index"),
            None => assert!(r.is_none(), "get: out-of-range index must be absent"),
        }
    }

    pub(crate) fn body_get_key_array(n: usize) {
        let e: [u64; 3] = [kani::any(), kani::any(), kani::any()];
        let mut v: Vec<Value> = Vec::with_capacity(3);
        if n > 0 {
            v.push(Value::Number(serde_json::Number::from(e[0])));
        }
        if n > 1 {
            v.push(Value::Number(serde_json::Number::from(e[1])));
        }
        if n > 2 {
            v.push(Value::Number(serde_json::Number::from(e[2])));
        }
        let data = MD::new(Value::Array(v));
        let idx: i64 = kani::any();
        #[cfg(verif_replay)]
        eprintln!("REPLAY-INPUT: get_key({}, {})", &*data, idx);
        let r = MD::new(get_key(&data, KeyType::Number(idx)));
        kani::cover!(true, "returned");
        match spec_get_index(n, idx) {
            Some(k) => assert!(matches!(&*r, Some(Value::Number(x)) if x.as_u64() == Some(e[k])), "var on an array: wrong element for the index"),
            None => assert!(r.is_none(), "var on an array: an out-of-range index is absent"),
        }
    }
    macro_rules! get_key_array_harness {
        ($name:ident, $n:expr) => {
            #[cfg_attr(kani, kani::proof)]
            #[cfg_attr(kani, kani::unwind(5))]
            #[cfg_attr(kani, kani::stub(<serde_json::Value as std::clone::Clone>::clone, crate::verif_support::value_clone_shallow))]
            pub(crate) fn $name() {
                body_get_key_array($n);
            }
        };
    }
    //@ob name=C11.get_key.array0 harness=k_c11_get_key_array0 props=C11,C01 strength=bounded bound="the empty array; EVERY i64 index" fns=op::data::get_key,op::data::get replay=generic stubs=1 timeout=200 cutdrop=2
    //@ desc="get_key([], i) is absent for every i64"
    get_key_array_harness!(k_c11_get_key_array0, 0);
    //@ob name=C11.get_key.array2 harness=k_c11_get_key_array2 props=C11,C01 strength=bounded bound="array data of 2 symbolic numbers; EVERY i64 index" fns=op::data::get_key,op::data::get replay=generic stubs=1 timeout=200 cutdrop=2
    //@ desc="get_key(array, integer i) is the element counted from the front (i >= 0) or from the end (i < 0), absent when out of range - for every i64"
    get_key_array_harness!(k_c11_get_key_array2, 2);
    //@ob name=C11.get_key.array3 harness=k_c11_get_key_array3 props=C11,C01 tier=thorough strength=bounded bound="array data of 3 symbolic numbers; EVERY i64 index" fns=op::data::get_key,op::data::get replay=generic stubs=1 timeout=200 cutdrop=2
    //@ desc="get_key(array of 3, integer i), every i64"
    get_key_array_harness!(k_c11_get_key_array3, 3);

    // ---- get_key with an integer key on STRING data: indexed by Unicode character (Chars by contract)
    pub(crate) fn body_get_key_string(l: usize) {
        use crate::verif_support::chars_contract as cc;
        cc::reset(l);
        let data = MD::new(Value::String(String::from(cc::real_text(l))));
        let idx: i64 = kani::any();
        let r = MD::new(get_key(&data, KeyType::Number(idx)));
        kani::cover!(true, "returned");
        match spec_get_index(l, idx) {
            Some(k) => {
                let mut one = String::with_capacity(4);
                one.push(cc::abstract_char(k));
                assert!(matches!(&*r, Some(Value::String(s)) if *s == one), "var on a string: the index counts Unicode characters (from the end when negative) and yields that one character");
            }
            None => assert!(r.is_none(), "var on a string: an out-of-range index is absent"),
        }
    }
    macro_rules! get_key_string_harness {
        ($name:ident, $l:expr) => {
            #[cfg_attr(kani, kani::proof)]
            #[cfg_attr(kani, kani::unwind(7))]
            #[cfg_attr(kani, kani::stub(<serde_json::Value as std::clone::Clone>::clone, crate::verif_support::value_clone_shallow))]
            #[cfg_attr(kani, kani::stub(<std::str::Chars<'_> as std::iter::Iterator>::next, crate::verif_support::chars_contract::CharsContract::next))]
            #[cfg_attr(kani, kani::stub(<std::str::Chars<'_> as std::iter::Iterator>::advance_by, crate::verif_support::chars_contract::CharsContract::advance_by))]
            pub(crate) fn $name() {
                body_get_key_string($l);
            }
        };
    }
    //@ob name=C11.get_key.string2 harness=k_c11_get_key_string2 props=C11,C01 strength=bounded bound="a 2-character string (1-byte and 4-byte characters; Chars by contract); EVERY i64 index" fns=op::data::get_key,op::data::get stubs=3 timeout=400 cutdrop=1
    //@ desc="get_key(string, integer i): strings are indexed by Unicode character, negative indices from the end, out of range absent - for every i64"
    get_key_string_harness!(k_c11_get_key_string2, 2);
    //@ob name=C11.get_key.string3 harness=k_c11_get_key_string3 props=C11,C01 tier=thorough strength=bounded bound="a 3-character string (1-, 4-, 2-byte characters; Chars by contract); EVERY i64 index" fns=op::data::get_key,op::data::get stubs=3 timeout=600 cutdrop=1
    //@ desc="get_key(string of 3 characters, integer i), every i64"
    get_key_string_harness!(k_c11_get_key_string3, 3);

    // ---- get_str_key on ARRAY data: the path is split (escapes honoured) and each segment is an integer index
    /// text: the key, as concrete characters (the real &str and the abstract Chars text agree)
    pub(crate) fn body_get_str_key_array(text: &'static str, expect_idx: Option<usize>) {
        use crate::verif_support::chars_contract as cc;
        let b = text.as_bytes();
        let mut i = 0;
        while i < b.len() {
            unsafe { cc::CH_TEXT[i] = b[i] as char };
            i += 1;
        }
        unsafe { cc::CH_USE_TEXT = true };
        cc::reset(b.len());
        let e: [u64; 3] = [kani::any(), kani::any(), kani::any()];
        let mut v: Vec<Value> = Vec::with_capacity(3);
        v.push(Value::Number(serde_json::Number::from(e[0])));
        v.push(Value::Number(serde_json::Number::from(e[1])));
        v.push(Value::Number(serde_json::Number::from(e[2])));
        let data = MD::new(Value::Array(v));
        let r = MD::new(get_str_key(&data, text));
        kani::cover!(true, "returned");
        match expect_idx {
            Some(k) => assert!(matches!(&*r, Some(Value::Number(x)) if x.as_u64() == Some(e[k])), "var with a string key on an array: the key (escapes removed) is the integer index"),
            None => assert!(r.is_none(), "var with a string key on an array: a non-index or out-of-range key is absent"),
        }
    }
    macro_rules! get_str_key_array_harness {
        ($name:ident, $text:expr, $expect:expr) => {
            #[cfg_attr(kani, kani::proof)]
            #[cfg_attr(kani, kani::unwind(8))]
            #[cfg_attr(kani, kani::stub(<serde_json::Value as std::clone::Clone>::clone, crate::verif_support::value_clone_shallow))]
            #[cfg_attr(kani, kani::stub(<std::str::Chars<'_> as std::iter::Iterator>::next, crate::verif_support::chars_contract::CharsContract::next))]
            #[cfg_attr(kani, kani::stub(std::string::String::push, ascii_push_stub))]
            pub(crate) fn $name() {
                body_get_str_key_array($text, $expect);
            }
        };
    }
    //@ob name=C11.get_str_key.array.plain harness=k_c11_gsk_plain props=C11,C01 tier=off strength=bounded bound="array of 3 symbolic numbers, key \"1\"" fns=op::data::get_str_key,op::data::split_with_escape,op::data::get stubs=3 timeout=400 cutdrop=2 group=medium
    //@ desc="a string key that is an integer indexes the array"
    get_str_key_array_harness!(k_c11_gsk_plain, "1", Some(1));
    //@ob name=C11.get_str_key.array.escaped harness=k_c11_gsk_escaped props=C11,C01 tier=off strength=bounded bound="array of 3 symbolic numbers, key \"\\\\1\" (escaped digit, no dot)" fns=op::data::get_str_key,op::data::split_with_escape,op::data::get stubs=3 timeout=400 cutdrop=2 group=medium
    //@ desc="a backslash makes the next character literal even when the key contains no dot: \"\\\\1\" is the index 1"
    get_str_key_array_harness!(k_c11_gsk_escaped, "\\1", Some(1));
    //@ob name=C11.get_str_key.array.negative harness=k_c11_gsk_negative props=C11,C01 tier=off strength=bounded bound="array of 3 symbolic numbers, key \"-1\"" fns=op::data::get_str_key,op::data::split_with_escape,op::data::get stubs=3 timeout=400 cutdrop=2 group=medium
    //@ desc="a negative integer key counts from the end"
    get_str_key_array_harness!(k_c11_gsk_negative, "-1", Some(2));
    //@ob name=C11.get_str_key.array.absent harness=k_c11_gsk_absent props=C11,C01 tier=off strength=bounded bound="array of 3 symbolic numbers, key \"7\"" fns=op::data::get_str_key,op::data::split_with_escape,op::data::get stubs=3 timeout=400 cutdrop=2 group=medium
    //@ desc="an out-of-range index is absent"
    get_str_key_array_harness!(k_c11_gsk_absent, "7", None);

    // =====================================================================================
    // C11: split_with_escape as a function - "a dot-separated path (a backslash makes the next character
    // literal)". The input is an ABSTRACT string (Chars by contract) of up to 4 characters, each a symbolic
    // choice among 'a', 'b', '.', '\\'. Inputs with empty segments (leading / doubled / trailing unescaped dot)
    // and a dangling final backslash are excluded: the statement does not say what they mean.
    // `String::push` for these ASCII characters is replaced by a byte push (its contract for ASCII).
    // =====================================================================================
    pub(crate) fn ascii_push_stub(s: &mut String, ch: char) {
        assert!((ch as u32) < 128, "harness characters are ASCII");
        unsafe { s.as_mut_vec().push(ch as u8) };
    }
    /// one concrete text (`code` in base 4 picks the characters): run the real function, compare with the spec
    fn check_split(l: usize, code: usize) {
        use crate::verif_support::chars_contract as cc;
        const ALPHA: [char; 4] = ['a', 'b', '.', '\\'];
        let mut text = [0u8; 4];
        let mut c = code;
        let mut i = 0;
        while i < l {
            unsafe { cc::CH_TEXT[i] = ALPHA[c % 4] };
            text[i] = ALPHA[c % 4] as u8;
            c /= 4;
            i += 1;
        }
        unsafe { cc::CH_USE_TEXT = true };
        cc::reset(l);
        // spec: segments split at unescaped dots, the character after a backslash is literal
        let mut seg = [[0u8; 4]; 4];
        let mut seg_len = [0usize; 4];
        let mut n = 0;
        let mut esc = false;
        let mut well_formed = true;
        let mut i = 0;
        while i < l {
            let ch = text[i];
            if esc {
                seg[n][seg_len[n]] = ch;
                seg_len[n] += 1;
                esc = false;
            } else if ch == b'\\' {
                esc = true;
            } else if ch == b'.' {
                if seg_len[n] == 0 {
                    well_formed = false;
                }
                n += 1;
            } else {
                seg[n][seg_len[n]] = ch;
                seg_len[n] += 1;
            }
            i += 1;
        }
        if !(well_formed && !esc && (l == 0 || seg_len[n] > 0)) {
            return; // empty segments / dangling backslash: excluded (the statement is silent)
        }
        let count = if l == 0 { 0 } else { n + 1 };
        let r = MD::new(split_with_escape("????", '.'));
        assert!(r.len() == count, "split_with_escape: wrong number of path segments (split at unescaped dots only)");
        let mut k = 0;
        while k < count {
            let s = r[k].as_bytes();
            assert!(s.len() == seg_len[k], "split_with_escape: wrong segment length (an escaped character is kept, its backslash dropped)");
            let mut j = 0;
            while j < seg_len[k] {
                assert!(s[j] == seg[k][j], "split_with_escape: wrong segment text");
                j += 1;
            }
            k += 1;
        }
    }
    /// every text of exactly `l` characters over the alphabet, one after the other (all concrete: CBMC's symbolic
    /// execution of a symbolic text makes String growth a symbolic-size realloc, which the solver does not survive)
    pub(crate) fn body_split(l: usize) {
        let mut total = 1;
        let mut i = 0;
        while i < l {
            total *= 4;
            i += 1;
        }
        let mut code = 0;
        while code < total {
            check_split(l, code);
            code += 1;
        }
        kani::cover!(true, "all texts checked");
    }
    macro_rules! split_harness {
        ($name:ident, $l:expr) => {
            #[cfg_attr(kani, kani::proof)]
            #[cfg_attr(kani, kani::stub(<std::str::Chars<'_> as std::iter::Iterator>::next, crate::verif_support::chars_contract::CharsContract::next))]
            #[cfg_attr(kani, kani::stub(std::string::String::push, ascii_push_stub))]
            pub(crate) fn $name() {
                body_split($l);
            }
        };
    }
    //@ob name=C11.split.len0 harness=k_c11_split_0 props=C11,C01 strength=bounded bound="the empty path" fns=op::data::split_with_escape stubs=2 timeout=300
    //@ desc="split_with_escape of the empty string has no segments"
    split_harness!(k_c11_split_0, 0);
    //@ob name=C11.split.len2 harness=k_c11_split_2 props=C11,C01 strength=bounded bound="every 2-character path over {a b . \\} without empty segments (abstract string: Chars by contract)" fns=op::data::split_with_escape stubs=2 timeout=300
    //@ desc="split_with_escape splits at unescaped dots only; a backslash makes the next character literal (and is dropped)"
    split_harness!(k_c11_split_2, 2);
    //@ob name=C11.split.len3 harness=k_c11_split_3 props=C11,C01 strength=bounded bound="every 3-character path over {a b . \\} without empty segments" fns=op::data::split_with_escape stubs=2 timeout=400
    //@ desc="split_with_escape on all 3-character paths (a.b, a\\.b -> one segment, \\\\a ...)"
    split_harness!(k_c11_split_3, 3);
    //@ob name=C11.split.len4 harness=k_c11_split_4 props=C11,C01 tier=thorough strength=bounded bound="every 4-character path over {a b . \\} without empty segments" fns=op::data::split_with_escape stubs=2 timeout=600
    //@ desc="split_with_escape on all 4-character paths"
    split_harness!(k_c11_split_4, 4);

    // =====================================================================================
    // C11 / C12 / C04: var, missing, missing_some with the lookup `get_key` by contract.
    // Abstract presence function over the key alphabet {"a","b","c", any integer}: PRESENT[i] says
    // whether the lookup finds something, PLAN_VAL[i] what it finds. Consistent for equal keys.
    // =====================================================================================
    pub(crate) static mut PRESENT: [bool; 4] = [false; 4];
    pub(crate) static mut PLAN_VAL: [u64; 4] = [0; 4];
    pub(crate) static mut LOOKUPS: [u8; 4] = [0; 4];
    pub(crate) static mut LOOKUP_DATA_OK: bool = true;
    pub(crate) static mut OUTER: *const Value = std::ptr::null();
    fn key_idx(b: u8) -> usize {
        match b {
            b'a' => 0,
            b'b' => 1,
            _ => 2,
        }
    }
    /// string buffers of the key operands, by address: lets the stub identify a key without reading
    /// its bytes back from the heap (which CBMC would treat as symbolic)
    pub(crate) static mut KEY_BUF: [*const u8; 8] = [std::ptr::null(); 8];
    pub(crate) static mut KEY_BUF_IDX: [usize; 8] = [0; 8];
    pub(crate) static mut KEY_BUF_N: usize = 0;
    fn lookup_buf(p: *const u8) -> Option<usize> {
        let mut i = 0;
        while i < unsafe { KEY_BUF_N } {
            if unsafe { KEY_BUF[i] } == p {
                return Some(unsafe { KEY_BUF_IDX[i] });
            }
            i += 1;
        }
        None
    }
    /// contract stub for `get_key`: null / "" -> the entire data; otherwise the presence function.
    pub(crate) fn get_key_stub(data: &Value, key: KeyType) -> Option<Value> {
        if data as *const Value != unsafe { OUTER } {
            unsafe { LOOKUP_DATA_OK = false };
        }
        let idx = match &key {
            KeyType::Null => return Some(crate::verif_support::value_clone_shallow(data)),
            KeyType::String(k) => {
                if k.len() == 0 {
                    return Some(crate::verif_support::value_clone_shallow(data));
                }
                match lookup_buf(k.as_ptr()) {
                    Some(i) => i,
                    None => {
                        assert!(false, "lookup with a key string that is not one of the operands");
                        0
                    }
                }
            }
            KeyType::Number(_) => 3,
        };
        std::mem::forget(key);
        unsafe {
            LOOKUPS[idx] += 1;
            if PRESENT[idx] {
                Some(Value::Number(serde_json::Number::from(PLAN_VAL[idx])))
            } else {
                None
            }
        }
    }
    fn label(b: u8) -> Value {
        let s = match b {
            b'a' => String::from("a"),
            b'b' => String::from("b"),
            _ => String::from("c"),
        };
        unsafe {
            KEY_BUF[KEY_BUF_N] = s.as_ptr();
            KEY_BUF_IDX[KEY_BUF_N] = key_idx(b);
            KEY_BUF_N += 1;
        }
        Value::String(s)
    }
    fn plan(pres: u8) {
        // straight-line on purpose: the harness-wide unwind bound is kept at (longest operand list + 2), because
        // CBMC does not decide slice-iterator termination statically and explores the closure of every
        // fold / map up to the bound
        unsafe {
            PRESENT[0] = pres & 1 == 1;
            PRESENT[1] = (pres >> 1) & 1 == 1;
            PRESENT[2] = (pres >> 2) & 1 == 1;
            PRESENT[3] = (pres >> 3) & 1 == 1;
            PLAN_VAL[0] = kani::any();
            PLAN_VAL[1] = kani::any();
            PLAN_VAL[2] = kani::any();
            PLAN_VAL[3] = kani::any();
        }
    }
    fn is_label(v: &Value, b: u8) -> bool {
        match v {
            Value::String(s) => s.len() == 1 && s.as_bytes()[0] == b,
            _ => false,
        }
    }

    // ---- var
    /// kkind: 0 = "a", 1 = integer (any i64), 2 = null, 3 = "" , 4 = bool (bad key), 5 = 1.5 (bad key)
    pub(crate) fn body_var(nargs: usize, kkind: u8, pres: u8) {
        plan(pres);
        let d: u64 = kani::any();
        let dflt: u64 = kani::any();
        let data = MD::new(Value::Number(serde_json::Number::from(d)));
        unsafe { OUTER = &*data as *const Value };
        let key = MD::new(match kkind {
            0 => label(b'a'),
            1 => Value::Number(serde_json::Number::from(kani::any::<i64>())),
            2 => Value::Null,
            3 => Value::String(String::new()),
            4 => Value::Bool(true),
            _ => Value::Number(serde_json::Number::from_f64(1.5).unwrap()),
        });
        let default = MD::new(Value::Number(serde_json::Number::from(dflt)));
        let mut args: Vec<&Value> = Vec::with_capacity(2);
        if nargs >= 1 {
            args.push(&*key);
        }
        if nargs >= 2 {
            args.push(&*default);
        }
        let args = MD::new(args);
        let r = MD::new(var(&data, &args));
        kani::cover!(true, "returned");
        let as_u64 = |r: &Result<Value, Error>| match r {
            Ok(Value::Number(n)) => n.as_u64(),
            _ => None,
        };
        if nargs == 0 || kkind == 2 || kkind == 3 {
            assert!(as_u64(&r) == Some(d), "var: no key / null / \"\" must return the entire data");
        } else if kkind >= 4 {
            assert!(r.is_err(), "var: keys must be strings, integers or null");
        } else {
            let idx = if kkind == 0 { 0 } else { 3 };
            if (pres >> idx) & 1 == 1 {
                assert!(as_u64(&r) == Some(unsafe { PLAN_VAL[idx] }), "var: a present value must be returned unchanged, in preference to the default");
            } else if nargs >= 2 {
                assert!(as_u64(&r) == Some(dflt), "var: absent => the supplied default, as given (already evaluated; never re-interpreted)");
            } else {
                assert!(matches!(&*r, Ok(Value::Null)), "var: absent and no default => null");
            }
            assert!(unsafe { LOOKUPS[idx] } == 1 && unsafe { LOOKUP_DATA_OK }, "var: exactly one lookup, against the data");
        }
    }
    macro_rules! var_harness {
        ($name:ident, $nargs:expr, $kkind:expr, $pres:expr) => {
            #[cfg_attr(kani, kani::proof)]
            #[cfg_attr(kani, kani::unwind(4))]
            #[cfg_attr(kani, kani::stub(<serde_json::Value as std::clone::Clone>::clone, crate::verif_support::value_clone_shallow))]
            #[cfg_attr(kani, kani::stub(crate::op::data::get_key, get_key_stub))]
            #[cfg_attr(kani, kani::stub(crate::value::Parsed::from_value, crate::value::Parsed::verif_from_value_stub))]
            #[cfg_attr(kani, kani::stub(crate::value::Parsed::evaluate, crate::value::Parsed::verif_evaluate_stub))]
            #[cfg_attr(kani, kani::stub(std::fmt::format, crate::verif_support::fmt_stub))]
            pub(crate) fn $name() {
                body_var($nargs, $kkind, $pres);
            }
        };
    }
//@GENERATED-VAR
    //@ob name=C11.var.0.str.p0 harness=k_c11_var_0_str_p0 props=C11,C04,C01 tier=quick strength=bounded bound="0 operands; key kind str (integer keys: every i64); lookup present-pattern 0b0; data, found value and default symbolic numbers" fns=op::data::var stubs=5 timeout=300 cutdrop=1 group=medium
    //@ desc="var: operand-less / null / \"\" => entire data; present value (whatever it is) wins over the default; absent => the default AS GIVEN (the parser is never applied to it: C04) else null; bad key kinds => error; exactly one lookup against the data (lookup by contract)"
    var_harness!(k_c11_var_0_str_p0, 0, 0, 0);
    //@ob name=C11.var.1.str.p1 harness=k_c11_var_1_str_p1 props=C11,C04,C01 tier=quick strength=bounded bound="1 operands; key kind str (integer keys: every i64); lookup present-pattern 0b1; data, found value and default symbolic numbers" fns=op::data::var stubs=5 timeout=300 cutdrop=1 group=medium
    //@ desc="var: operand-less / null / \"\" => entire data; present value (whatever it is) wins over the default; absent => the default AS GIVEN (the parser is never applied to it: C04) else null; bad key kinds => error; exactly one lookup against the data (lookup by contract)"
    var_harness!(k_c11_var_1_str_p1, 1, 0, 1);
    //@ob name=C11.var.1.str.p0 harness=k_c11_var_1_str_p0 props=C11,C04,C01 tier=quick strength=bounded bound="1 operands; key kind str (integer keys: every i64); lookup present-pattern 0b0; data, found value and default symbolic numbers" fns=op::data::var stubs=5 timeout=300 cutdrop=1 group=medium
    //@ desc="var: operand-less / null / \"\" => entire data; present value (whatever it is) wins over the default; absent => the default AS GIVEN (the parser is never applied to it: C04) else null; bad key kinds => error; exactly one lookup against the data (lookup by contract)"
    var_harness!(k_c11_var_1_str_p0, 1, 0, 0);
    //@ob name=C11.var.2.str.p1 harness=k_c11_var_2_str_p1 props=C11,C04,C01 tier=quick strength=bounded bound="2 operands; key kind str (integer keys: every i64); lookup present-pattern 0b1; data, found value and default symbolic numbers" fns=op::data::var stubs=5 timeout=300 cutdrop=1 group=medium
    //@ desc="var: operand-less / null / \"\" => entire data; present value (whatever it is) wins over the default; absent => the default AS GIVEN (the parser is never applied to it: C04) else null; bad key kinds => error; exactly one lookup against the data (lookup by contract)"
    var_harness!(k_c11_var_2_str_p1, 2, 0, 1);
    //@ob name=C11.var.2.str.p0 harness=k_c11_var_2_str_p0 props=C11,C04,C01 tier=quick strength=bounded bound="2 operands; key kind str (integer keys: every i64); lookup present-pattern 0b0; data, found value and default symbolic numbers" fns=op::data::var stubs=5 timeout=300 cutdrop=1 group=medium
    //@ desc="var: operand-less / null / \"\" => entire data; present value (whatever it is) wins over the default; absent => the default AS GIVEN (the parser is never applied to it: C04) else null; bad key kinds => error; exactly one lookup against the data (lookup by contract)"
    var_harness!(k_c11_var_2_str_p0, 2, 0, 0);
    //@ob name=C11.var.2.int.p8 harness=k_c11_var_2_int_p8 props=C11,C04,C01 tier=quick strength=bounded bound="2 operands; key kind int (integer keys: every i64); lookup present-pattern 0b1000; data, found value and default symbolic numbers" fns=op::data::var stubs=5 timeout=300 cutdrop=1 group=medium
    //@ desc="var: operand-less / null / \"\" => entire data; present value (whatever it is) wins over the default; absent => the default AS GIVEN (the parser is never applied to it: C04) else null; bad key kinds => error; exactly one lookup against the data (lookup by contract)"
    var_harness!(k_c11_var_2_int_p8, 2, 1, 8);
    //@ob name=C11.var.2.int.p0 harness=k_c11_var_2_int_p0 props=C11,C04,C01 tier=quick strength=bounded bound="2 operands; key kind int (integer keys: every i64); lookup present-pattern 0b0; data, found value and default symbolic numbers" fns=op::data::var stubs=5 timeout=300 cutdrop=1 group=medium
    //@ desc="var: operand-less / null / \"\" => entire data; present value (whatever it is) wins over the default; absent => the default AS GIVEN (the parser is never applied to it: C04) else null; bad key kinds => error; exactly one lookup against the data (lookup by contract)"
    var_harness!(k_c11_var_2_int_p0, 2, 1, 0);
    //@ob name=C11.var.1.null.p0 harness=k_c11_var_1_null_p0 props=C11,C04,C01 tier=quick strength=bounded bound="1 operands; key kind null (integer keys: every i64); lookup present-pattern 0b0; data, found value and default symbolic numbers" fns=op::data::var stubs=5 timeout=300 cutdrop=1 group=medium
    //@ desc="var: operand-less / null / \"\" => entire data; present value (whatever it is) wins over the default; absent => the default AS GIVEN (the parser is never applied to it: C04) else null; bad key kinds => error; exactly one lookup against the data (lookup by contract)"
    var_harness!(k_c11_var_1_null_p0, 1, 2, 0);
    //@ob name=C11.var.2.empty.p0 harness=k_c11_var_2_empty_p0 props=C11,C04,C01 tier=thorough strength=bounded bound="2 operands; key kind empty (integer keys: every i64); lookup present-pattern 0b0; data, found value and default symbolic numbers" fns=op::data::var stubs=5 timeout=300 cutdrop=1 group=medium
    //@ desc="var: operand-less / null / \"\" => entire data; present value (whatever it is) wins over the default; absent => the default AS GIVEN (the parser is never applied to it: C04) else null; bad key kinds => error; exactly one lookup against the data (lookup by contract)"
    var_harness!(k_c11_var_2_empty_p0, 2, 3, 0);
    //@ob name=C11.var.1.bool.p0 harness=k_c11_var_1_bool_p0 props=C11,C04,C01 tier=quick strength=bounded bound="1 operands; key kind bool (integer keys: every i64); lookup present-pattern 0b0; data, found value and default symbolic numbers" fns=op::data::var stubs=5 timeout=300 cutdrop=1 group=medium
    //@ desc="var: operand-less / null / \"\" => entire data; present value (whatever it is) wins over the default; absent => the default AS GIVEN (the parser is never applied to it: C04) else null; bad key kinds => error; exactly one lookup against the data (lookup by contract)"
    var_harness!(k_c11_var_1_bool_p0, 1, 4, 0);
    //@ob name=C11.var.2.float.p0 harness=k_c11_var_2_float_p0 props=C11,C04,C01 tier=thorough strength=bounded bound="2 operands; key kind float (integer keys: every i64); lookup present-pattern 0b0; data, found value and default symbolic numbers" fns=op::data::var stubs=5 timeout=300 cutdrop=1 group=medium
    //@ desc="var: operand-less / null / \"\" => entire data; present value (whatever it is) wins over the default; absent => the default AS GIVEN (the parser is never applied to it: C04) else null; bad key kinds => error; exactly one lookup against the data (lookup by contract)"
    var_harness!(k_c11_var_2_float_p0, 2, 5, 0);
    //@ob name=C11.var.1.int.p8 harness=k_c11_var_1_int_p8 props=C11,C04,C01 tier=thorough strength=bounded bound="1 operands; key kind int (integer keys: every i64); lookup present-pattern 0b1000; data, found value and default symbolic numbers" fns=op::data::var stubs=5 timeout=300 cutdrop=1 group=medium
    //@ desc="var: operand-less / null / \"\" => entire data; present value (whatever it is) wins over the default; absent => the default AS GIVEN (the parser is never applied to it: C04) else null; bad key kinds => error; exactly one lookup against the data (lookup by contract)"
    var_harness!(k_c11_var_1_int_p8, 1, 1, 8);
//@END-GENERATED-VAR

    // ---- missing
    /// shape 0: ["a","b"]   1: [["a","b"],"c"] (first operand an array supplies the whole list)
    ///       2: ["a", null, 7]   3: [true] (bad key)   4: []   5: ["b","a","b"]
    pub(crate) fn body_missing(shape: u8, pres: u8) {
        plan(pres);
        let data = MD::new(Value::Bool(true));
        unsafe { OUTER = &*data as *const Value };
        let a = MD::new(label(b'a'));
        let b = MD::new(label(b'b'));
        let c = MD::new(label(b'c'));
        let nul = MD::new(Value::Null);
        let seven = MD::new(Value::Number(serde_json::Number::from(7)));
        let bad = MD::new(Value::Bool(true));
        let inner = MD::new(Value::Array(vec![label(b'a'), label(b'b')]));
        let mut args: Vec<&Value> = Vec::with_capacity(3);
        // expected request list as (label byte | 0 = null | 1 = integer)
        let mut want: [u8; 3] = [0; 3];
        let mut wn = 0;
        match shape {
            0 => { args.push(&*a); args.push(&*b); want = [b'a', b'b', 0]; wn = 2; }
            1 => { args.push(&*inner); args.push(&*c); want = [b'a', b'b', 0]; wn = 2; }
            2 => { args.push(&*a); args.push(&*nul); args.push(&*seven); want = [b'a', 0, 1]; wn = 3; }
            3 => { args.push(&*bad); }
            4 => {}
            _ => { args.push(&*b); args.push(&*a); args.push(&*b); want = [b'b', b'a', b'b']; wn = 3; }
        }
        let args = MD::new(args);
        let r = MD::new(missing(&data, &args));
        kani::cover!(true, "returned");
        if shape == 3 {
            assert!(r.is_err(), "missing: a boolean is not a key");
            return;
        }
        let out = match &*r {
            Ok(Value::Array(o)) => o,
            _ => {
                assert!(false, "missing must return an array");
                return;
            }
        };
        // exactly the requested non-null keys whose lookup finds nothing, in request order
        let mut w = 0;
        let mut j = 0;
        while j < wn {
            let k = want[j];
            if k != 0 {
                let idx = if k == 1 { 3 } else { key_idx(k) };
                if (pres >> idx) & 1 == 0 {
                    assert!(w < out.len(), "missing: a key that cannot be found was not reported");
                    if k == 1 {
                        assert!(matches!(&out[w], Value::Number(n) if n.as_u64() == Some(7)), "missing: keys are reported as requested, in order");
                    } else {
                        assert!(is_label(&out[w], k), "missing: keys are reported as requested, in order");
                    }
                    w += 1;
                }
            }
            j += 1;
        }
        assert!(out.len() == w, "missing: a present (or null) key was reported as missing");
        assert!(unsafe { LOOKUP_DATA_OK }, "missing: lookups must be against the data");
    }
    macro_rules! missing_harness {
        ($name:ident, $shape:expr, $pres:expr) => {
            #[cfg_attr(kani, kani::proof)]
            #[cfg_attr(kani, kani::unwind(4))]
            #[cfg_attr(kani, kani::stub(<serde_json::Value as std::clone::Clone>::clone, crate::verif_support::value_clone_shallow))]
            #[cfg_attr(kani, kani::stub(crate::op::data::get_key, get_key_stub))]
            #[cfg_attr(kani, kani::stub(std::fmt::format, crate::verif_support::fmt_stub))]
            pub(crate) fn $name() {
                body_missing($shape, $pres);
            }
        };
    }
//@GENERATED-MISSING
    //@ob name=C12.missing.s0.p0 harness=k_c12_missing_s0_p0 props=C12,C01 tier=off strength=bounded bound="key-list shape 0; present-pattern 0b0 over keys a,b,c,integer" fns=op::data::missing stubs=3 timeout=200 cutdrop=2 group=medium
    //@ desc="missing: exactly the requested non-null keys whose lookup finds nothing, in request order; a first operand that is an array supplies the whole list; non-key kinds are errors (lookup by contract, the same one var uses)"
    missing_harness!(k_c12_missing_s0_p0, 0, 0);
    //@ob name=C12.missing.s0.p1 harness=k_c12_missing_s0_p1 props=C12,C01 tier=off strength=bounded bound="key-list shape 0; present-pattern 0b1 over keys a,b,c,integer" fns=op::data::missing stubs=3 timeout=200 cutdrop=2 group=medium
    //@ desc="missing: exactly the requested non-null keys whose lookup finds nothing, in request order; a first operand that is an array supplies the whole list; non-key kinds are errors (lookup by contract, the same one var uses)"
    missing_harness!(k_c12_missing_s0_p1, 0, 1);
    //@ob name=C12.missing.s0.p3 harness=k_c12_missing_s0_p3 props=C12,C01 tier=off strength=bounded bound="key-list shape 0; present-pattern 0b11 over keys a,b,c,integer" fns=op::data::missing stubs=3 timeout=200 cutdrop=2 group=medium
    //@ desc="missing: exactly the requested non-null keys whose lookup finds nothing, in request order; a first operand that is an array supplies the whole list; non-key kinds are errors (lookup by contract, the same one var uses)"
    missing_harness!(k_c12_missing_s0_p3, 0, 3);
    //@ob name=C12.missing.s1.p2 harness=k_c12_missing_s1_p2 props=C12,C01 tier=off strength=bounded bound="key-list shape 1; present-pattern 0b10 over keys a,b,c,integer" fns=op::data::missing stubs=3 timeout=200 cutdrop=2 group=medium
    //@ desc="missing: exactly the requested non-null keys whose lookup finds nothing, in request order; a first operand that is an array supplies the whole list; non-key kinds are errors (lookup by contract, the same one var uses)"
    missing_harness!(k_c12_missing_s1_p2, 1, 2);
    //@ob name=C12.missing.s2.p0 harness=k_c12_missing_s2_p0 props=C12,C01 tier=off strength=bounded bound="key-list shape 2; present-pattern 0b0 over keys a,b,c,integer" fns=op::data::missing stubs=3 timeout=200 cutdrop=2 group=medium
    //@ desc="missing: exactly the requested non-null keys whose lookup finds nothing, in request order; a first operand that is an array supplies the whole list; non-key kinds are errors (lookup by contract, the same one var uses)"
    missing_harness!(k_c12_missing_s2_p0, 2, 0);
    //@ob name=C12.missing.s2.p9 harness=k_c12_missing_s2_p9 props=C12,C01 tier=off strength=bounded bound="key-list shape 2; present-pattern 0b1001 over keys a,b,c,integer" fns=op::data::missing stubs=3 timeout=200 cutdrop=2 group=medium
    //@ desc="missing: exactly the requested non-null keys whose lookup finds nothing, in request order; a first operand that is an array supplies the whole list; non-key kinds are errors (lookup by contract, the same one var uses)"
    missing_harness!(k_c12_missing_s2_p9, 2, 9);
    //@ob name=C12.missing.s3.p0 harness=k_c12_missing_s3_p0 props=C12,C01 tier=off strength=bounded bound="key-list shape 3; present-pattern 0b0 over keys a,b,c,integer" fns=op::data::missing stubs=3 timeout=200 cutdrop=2 group=medium
    //@ desc="missing: exactly the requested non-null keys whose lookup finds nothing, in request order; a first operand that is an array supplies the whole list; non-key kinds are errors (lookup by contract, the same one var uses)"
    missing_harness!(k_c12_missing_s3_p0, 3, 0);
    //@ob name=C12.missing.s4.p0 harness=k_c12_missing_s4_p0 props=C12,C01 tier=quick strength=bounded bound="key-list shape 4; present-pattern 0b0 over keys a,b,c,integer" fns=op::data::missing stubs=3 timeout=200 cutdrop=2 group=medium
    //@ desc="missing: exactly the requested non-null keys whose lookup finds nothing, in request order; a first operand that is an array supplies the whole list; non-key kinds are errors (lookup by contract, the same one var uses)"
    missing_harness!(k_c12_missing_s4_p0, 4, 0);
    //@ob name=C12.missing.s5.p1 harness=k_c12_missing_s5_p1 props=C12,C01 tier=off strength=bounded bound="key-list shape 5; present-pattern 0b1 over keys a,b,c,integer" fns=op::data::missing stubs=3 timeout=200 cutdrop=2 group=medium
    //@ desc="missing: exactly the requested non-null keys whose lookup finds nothing, in request order; a first operand that is an array supplies the whole list; non-key kinds are errors (lookup by contract, the same one var uses)"
    missing_harness!(k_c12_missing_s5_p1, 5, 1);
    //@ob name=C12.missing.s5.p0 harness=k_c12_missing_s5_p0 props=C12,C01 tier=off strength=bounded bound="key-list shape 5; present-pattern 0b0 over keys a,b,c,integer" fns=op::data::missing stubs=3 timeout=200 cutdrop=2 group=medium
    //@ desc="missing: exactly the requested non-null keys whose lookup finds nothing, in request order; a first operand that is an array supplies the whole list; non-key kinds are errors (lookup by contract, the same one var uses)"
    missing_harness!(k_c12_missing_s5_p0, 5, 0);
//@END-GENERATED-MISSING

    // ---- missing_some
    /// keys shape 0: ["a","b"]  1: ["a","a"]  2: ["a","b","a"]  3: []  4: ["a", null, "b"]
    pub(crate) fn body_missing_some(shape: u8, pres: u8) {
        plan(pres);
        let data = MD::new(Value::Bool(true));
        unsafe { OUTER = &*data as *const Value };
        let threshold: u64 = kani::any();
        let tv = MD::new(Value::Number(serde_json::Number::from(threshold)));
        let (keys, want, wn): (Vec<Value>, [u8; 3], usize) = match shape {
            0 => (vec![label(b'a'), label(b'b')], [b'a', b'b', 0], 2),
            1 => (vec![label(b'a'), label(b'a')], [b'a', b'a', 0], 2),
            2 => (vec![label(b'a'), label(b'b'), label(b'a')], [b'a', b'b', b'a'], 3),
            // (an allocated empty Vec: iterating a dangling-pointer `vec![]` is not decided statically by CBMC)
            3 => (Vec::with_capacity(1), [0, 0, 0], 0),
            _ => (vec![label(b'a'), Value::Null, label(b'b')], [b'a', 0, b'b'], 3),
        };
        let kv = MD::new(Value::Array(keys));
        let mut args: Vec<&Value> = Vec::with_capacity(2);
        args.push(&*tv);
        args.push(&*kv);
        let args = MD::new(args);
        let r = MD::new(missing_some(&data, &args));
        kani::cover!(true, "returned");
        let out = match &*r {
            Ok(Value::Array(o)) => o,
            _ => {
                assert!(false, "missing_some(threshold, [keys]) must return an array");
                return;
            }
        };
        // spec: count the listed keys that are present (an absent key is never counted); met => [];
        // otherwise the distinct missing keys in first-occurrence order
        let mut count: u64 = 0;
        let mut miss: [u8; 3] = [0; 3];
        let mut mn = 0;
        let mut j = 0;
        while j < wn && count < threshold {
            let k = want[j];
            if k != 0 {
                if (pres >> key_idx(k)) & 1 == 1 {
                    count += 1;
                } else {
                    let mut seen = false;
                    let mut q = 0;
                    while q < mn {
                        if miss[q] == k {
                            seen = true;
                        }
                        q += 1;
                    }
                    if !seen {
                        miss[mn] = k;
                        mn += 1;
                    }
                }
            }
            j += 1;
        }
        if count >= threshold {
            assert!(out.len() == 0, "missing_some: enough listed keys are present => empty array");
        } else {
            assert!(out.len() == mn, "missing_some: threshold not met => exactly the distinct missing keys (an absent key is never counted as present, however often it is listed)");
            let mut q = 0;
            while q < mn {
                assert!(is_label(&out[q], miss[q]), "missing_some: missing keys in first-occurrence order");
                q += 1;
            }
        }
    }
    macro_rules! missing_some_harness {
        ($name:ident, $shape:expr, $pres:expr) => {
            #[cfg_attr(kani, kani::proof)]
            #[cfg_attr(kani, kani::unwind(4))]
            #[cfg_attr(kani, kani::stub(<serde_json::Value as std::clone::Clone>::clone, crate::verif_support::value_clone_shallow))]
            #[cfg_attr(kani, kani::stub(crate::op::data::get_key, get_key_stub))]
            #[cfg_attr(kani, kani::stub(std::fmt::format, crate::verif_support::fmt_stub))]
            pub(crate) fn $name() {
                body_missing_some($shape, $pres);
            }
        };
    }
//@GENERATED-MISSING-SOME
    //@ob name=C12.missing_some.s0.p0 harness=k_c12_missing_some_s0_p0 props=C12,C01 tier=off strength=bounded bound="key-list shape 0; present-pattern 0b0; EVERY u64 threshold" fns=op::data::missing_some stubs=4 timeout=200 cutdrop=2 group=medium
    //@ desc="missing_some: for every threshold, [] iff the number of listed keys that are present reaches it (an absent key never counts, however often listed); otherwise the distinct missing keys in first-occurrence order"
    missing_some_harness!(k_c12_missing_some_s0_p0, 0, 0);
    //@ob name=C12.missing_some.s0.p1 harness=k_c12_missing_some_s0_p1 props=C12,C01 tier=off strength=bounded bound="key-list shape 0; present-pattern 0b1; EVERY u64 threshold" fns=op::data::missing_some stubs=4 timeout=200 cutdrop=2 group=medium
    //@ desc="missing_some: for every threshold, [] iff the number of listed keys that are present reaches it (an absent key never counts, however often listed); otherwise the distinct missing keys in first-occurrence order"
    missing_some_harness!(k_c12_missing_some_s0_p1, 0, 1);
    //@ob name=C12.missing_some.s0.p3 harness=k_c12_missing_some_s0_p3 props=C12,C01 tier=off strength=bounded bound="key-list shape 0; present-pattern 0b11; EVERY u64 threshold" fns=op::data::missing_some stubs=4 timeout=200 cutdrop=2 group=medium
    //@ desc="missing_some: for every threshold, [] iff the number of listed keys that are present reaches it (an absent key never counts, however often listed); otherwise the distinct missing keys in first-occurrence order"
    missing_some_harness!(k_c12_missing_some_s0_p3, 0, 3);
    //@ob name=C12.missing_some.s1.p0 harness=k_c12_missing_some_s1_p0 props=C12,C01 tier=off strength=bounded bound="key-list shape 1; present-pattern 0b0; EVERY u64 threshold" fns=op::data::missing_some stubs=4 timeout=200 cutdrop=2 group=medium
    //@ desc="missing_some: for every threshold, [] iff the number of listed keys that are present reaches it (an absent key never counts, however often listed); otherwise the distinct missing keys in first-occurrence order"
    missing_some_harness!(k_c12_missing_some_s1_p0, 1, 0);
    //@ob name=C12.missing_some.s1.p1 harness=k_c12_missing_some_s1_p1 props=C12,C01 tier=off strength=bounded bound="key-list shape 1; present-pattern 0b1; EVERY u64 threshold" fns=op::data::missing_some stubs=4 timeout=200 cutdrop=2 group=medium
    //@ desc="missing_some: for every threshold, [] iff the number of listed keys that are present reaches it (an absent key never counts, however often listed); otherwise the distinct missing keys in first-occurrence order"
    missing_some_harness!(k_c12_missing_some_s1_p1, 1, 1);
    //@ob name=C12.missing_some.s2.p2 harness=k_c12_missing_some_s2_p2 props=C12,C01 tier=off strength=bounded bound="key-list shape 2; present-pattern 0b10; EVERY u64 threshold" fns=op::data::missing_some stubs=4 timeout=200 cutdrop=2 group=medium
    //@ desc="missing_some: for every threshold, [] iff the number of listed keys that are present reaches it (an absent key never counts, however often listed); otherwise the distinct missing keys in first-occurrence order"
    missing_some_harness!(k_c12_missing_some_s2_p2, 2, 2);
    //@ob name=C12.missing_some.s2.p0 harness=k_c12_missing_some_s2_p0 props=C12,C01 tier=off strength=bounded bound="key-list shape 2; present-pattern 0b0; EVERY u64 threshold" fns=op::data::missing_some stubs=4 timeout=200 cutdrop=2 group=medium
    //@ desc="missing_some: for every threshold, [] iff the number of listed keys that are present reaches it (an absent key never counts, however often listed); otherwise the distinct missing keys in first-occurrence order"
    missing_some_harness!(k_c12_missing_some_s2_p0, 2, 0);
    //@ob name=C12.missing_some.s3.p0 harness=k_c12_missing_some_s3_p0 props=C12,C01 tier=off strength=bounded bound="key-list shape 3; present-pattern 0b0; EVERY u64 threshold" fns=op::data::missing_some stubs=4 timeout=200 cutdrop=2 group=medium
    //@ desc="missing_some: for every threshold, [] iff the number of listed keys that are present reaches it (an absent key never counts, however often listed); otherwise the distinct missing keys in first-occurrence order"
    missing_some_harness!(k_c12_missing_some_s3_p0, 3, 0);
    //@ob name=C12.missing_some.s4.p1 harness=k_c12_missing_some_s4_p1 props=C12,C01 tier=off strength=bounded bound="key-list shape 4; present-pattern 0b1; EVERY u64 threshold" fns=op::data::missing_some stubs=4 timeout=200 cutdrop=2 group=medium
    //@ desc="missing_some: for every threshold, [] iff the number of listed keys that are present reaches it (an absent key never counts, however often listed); otherwise the distinct missing keys in first-occurrence order"
    missing_some_harness!(k_c12_missing_some_s4_p1, 4, 1);
//@END-GENERATED-MISSING-SOME
}

#[cfg(any(kani, verif_replay))]
#[allow(dead_code, unused_imports, unused_variables, unused_macros, unused_mut, static_mut_refs)]
pub(crate) mod verif_data {
    use super::*;
    #[cfg(verif_replay)]
    use crate::verif_support::shim as kani;
    use crate::verif_support::*;

    /// C11: index counted from the front (idx >= 0) or from the end (idx < 0); None when out of range.
    pub(crate) fn spec_get_index(len: usize, idx: i64) -> Option<usize> {
        let l = len as i128;
        let i = idx as i128;
        if i >= 0 {
            if i < l { Some(i as usize) } else { None }
        } else if -i <= l {
            Some((l + i) as usize)
        } else {
            None
        }
    }

    //@ob name=C11.get.all_i64 props=C11,C01 strength=complete fns=op::data::get replay=generic pair=V:data.get
    //@ desc="get(slice, idx) on slices of length 0..4 and EVERY i64 idx (incl. i64::MIN): the element counted from the front / from the end, None out of range; no overflow panic (bit-precise twin of the unbounded Verus obligation, and its counterexample source)"
    #[cfg_attr(kani, kani::proof)]
    pub(crate) fn k_c11_get_all_i64() {
        let data: [u8; 4] = [10, 11, 12, 13];
        let len: usize = kani::any();
        kani::assume(len <= 4);
        let idx: i64 = kani::any();
        #[cfg(verif_replay)]
        eprintln!("REPLAY-INPUT: get(&{:?}, {})", &data[..len], idx);
        let r = get(&data[..len], idx);
        kani::cover!(r.is_some());
        kani::cover!(r.is_none());
        match spec_get_index(len, idx) {
            Some(k) => assert!(r == Some(&data[k]), "get: wrong element for the index"),
            None => assert!(r.is_none(), "get: out-of-range index must be absent"),
        }
    }
}

#!/bin/bash
# usage: gen/stats.sh <prop> <only-regex> [tier]   -- run and print cbmc stats per harness
cd /verif
./check $1 --only "$2" --tier ${3:-quick} --keep 2>&1 | grep -E "^(ok|FAIL|\?\?)" | cut -c1-160
S=$(ls -dt /var/tmp/jlverif-* | head -1)
python3 - <<PY
import json,glob
for f in glob.glob('$S/kani_*.json'):
    d=json.load(open(f))
    for c in d['cbmc']:
        st=c.get('cbmc_stats') or {}
        print(c['harness_id'].split('::')[-1], 'symex=%.1f convert=%.1f post=%.1f solver=%.1f size=%s vccs=%s' % (st.get('runtime_symex_s',-1), st.get('runtime_convert_ssa_s',-1), st.get('runtime_post_process_s',-1), st.get('runtime_decision_procedure_s',-1), st.get('size_program_expression'), st.get('vccs_generated')))
PY
rm -rf $S

#!/bin/bash
# usage: gen/seed_test.sh [seed-dir-name ...]   -- applies each seeded change to /repo, runs the check of the property it
# breaks (quick tier, then thorough if quick misses), prints the verdict, and restores /repo. Nothing is committed to /repo.
cd /verif
SEEDS=${@:-$(ls seeded)}
for s in $SEEDS; do
  prop=$(python3 -c "import json;print(json.load(open('seeded/$s/meta.json'))['breaks_property'])")
  if ! git -C /repo diff --quiet; then echo "/repo working tree is dirty: refusing"; exit 3; fi
  git -C /repo apply /verif/seeded/$s/patch.diff || { echo "$s: patch does not apply"; continue; }
  for tier in quick thorough; do
    VERIF_NO_EVIDENCE=1 ./check $prop --tier $tier > .logs/seed_$s.$tier.txt 2>&1; rc=$?
    v=$(grep -c "^VIOLATION" .logs/seed_$s.$tier.txt)
    echo "$s [$prop $tier] exit=$rc violations=$v : $(grep -E '^(FAIL|VIOLATION)' .logs/seed_$s.$tier.txt | head -3 | cut -c1-200 | tr '\n' ' ')"
    if [ $rc -eq 1 ]; then break; fi
    if [ "$QUICK_ONLY" = "1" ]; then break; fi
  done
  git -C /repo checkout -- .
done

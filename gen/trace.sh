#!/bin/bash
# usage: gen/trace.sh <prop> <only-regex> <harness-fn-name> <cut> [secs]  -- which loops does CBMC keep unwinding?
cd /verif
timeout 90 ./check $1 --only "$2" --keep >/dev/null 2>&1; pkill -9 cbmc
S=$(ls -dt /var/tmp/jlverif-* | head -1)
F=$(find $S/target/kani -name "*$3.out" | head -1)
UW=$(python3 - <<PY
import sys; sys.path.insert(0,'/verif')
from lib import kani as K
class O: harness='$3'
print(K.drop_cut_unwindset('$S',[O()],$4) or '')
PY
)
(cd $S && timeout ${5:-80} cbmc $F --unwind ${UNW:-10} --object-bits 16 --unwindset "$UW" --verbosity 9 2>&1 | grep -E "Unwinding (loop|recursion)" | sed -E 's/ iteration [0-9]+.*//; s/thread [0-9]+//' | cut -c1-200 | sort | uniq -c | sort -rn | head -${TOP:-14})
rm -rf $S

#!/bin/bash
# usage: gen/mutate.sh <prop> <only-regex> <file> <python-replace-old> <new>   -- runs ./check against a mutated scratch copy of /repo
set -e
PROP=$1; ONLY=$2; FILE=$3; OLD=$4; NEW=$5
D=$(mktemp -d /var/tmp/mut-XXXX)
rsync -a --exclude target --exclude .git /repo/ $D/
python3 - "$D/$FILE" "$OLD" "$NEW" <<'PY'
import sys
p,old,new=sys.argv[1:4]
s=open(p).read()
assert old in s, "pattern not found"
open(p,'w').write(s.replace(old,new,1))
PY
cd /verif
if [ -n "$ONLY" ]; then VERIF_NO_EVIDENCE=1 VERIF_REPO=$D ./check $PROP --only "$ONLY" 2>&1 | tail -${TAILN:-4}; else VERIF_NO_EVIDENCE=1 VERIF_REPO=$D ./check $PROP 2>&1 | grep -v "^ok" | tail -${TAILN:-6}; fi
rm -rf $D

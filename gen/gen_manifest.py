#!/usr/bin/env python3
"""Writes /verif/MANIFEST.json from lib/props.py (claimed properties) - run by hand."""
import json, os, sys
VERIF = os.path.dirname(os.path.dirname(os.path.abspath(__file__)))
sys.path.insert(0, VERIF)
from lib import props as P
from lib import kani as K
from lib import verus as V

NOTE = {
 'proof': 'Verus: real function text under requires/ensures, all inputs, unbounded; Kani: the real crate with cfg(kani) contract modules, loop-free over full scalar domains = complete. Bounded Kani obligations are listed separately in the evidence and never counted as proved.',
 'other': 'Every obligation of this property is a Kani obligation over bounded operand counts / shapes with callees by contract (evaluator, conversions); labelled bounded, not a proof.',
}
obs = K.load_obligations()
units = V.load_units()
claimed = []
for pid in sorted(P.PROPS):
    n = len([o for o in obs if pid in o.props]) + len([u for u in units if pid in u.props])
    if n and pid in P.CLAIMED:
        claimed.append(pid)
checks = []
for pid in claimed:
    meta = P.PROPS[pid]
    checks.append({
        'property_id': pid,
        'quick_cmd': './check %s --tier quick' % pid,
        'thorough_cmd': './check %s --tier thorough' % pid,
        'evidence_file': 'evidence/%s.json' % pid,
        'replay_cmd_template': './check --replay {path}',
        'engine': 'verus+kani',
        'level_claimed': {'category': meta['level'], 'text': meta['explanation'], 'design_ref': 'DESIGN.md section 0.2 (what is decided) and section 4 (original plan), ' + pid},
        'level_note': NOTE[meta['level']] + ' Trusted base and every stub/assume in force are written into the evidence on each run. Not covered: ' + ('; '.join(meta.get('not_covered', [])) or 'see DESIGN.md'),
        'technique': 'contract-based deductive verification of the real code (Verus requires/ensures on extracted function text; Kani contract harnesses with callees by contract stubs)',
    })
na = [
  {"property_id": "C17", "reason": "quantifies over call histories and thread schedules; neither Verus nor Kani contracts on this code can express it (DESIGN.md section 5)"},
  {"property_id": "C18", "reason": "process boundary (argv/stdin/stdout/exit status via clap/anyhow): no contract within reach of the installed verifiers (DESIGN.md section 5)"},
  {"property_id": "C19", "reason": "Python wrapper and cpython FFI macros: no deductive verifier for Python here (DESIGN.md section 5)"},
]
for pid in sorted(P.PROPS):
    if pid not in claimed:
        na.append({'property_id': pid, 'reason': P.NOT_YET.get(pid, 'obligations for this property are not built yet (work in progress; see DESIGN.md)')})
m = {
 'version': 1,
 'setup_cmd': 'true',
 'hooks': {
  'guard': 'kani',
  'enable': 'none in /repo: contract and harness modules (/verif/kani/*.rs) are appended to a scratch copy of /repo\'s working tree at check time and compile only under cfg(kani) / cfg(verif_replay); Verus units are assembled from text extracted from /repo/src on every run',
  'baseline_off_cmd': 'cd /repo && cargo test --workspace --no-fail-fast --offline',
  'source_commits': [],
  'add_only': True,
 },
 'engines': [
  {'name': 'verus', 'path': 'lib/verus.py + verus/*.vrs + verus/prelude.rs', 'serves_properties': sorted(set(p for u in units for p in u.props)), 'kind_free_text': 'deductive verifier (Verus/z3) on function text extracted mechanically from /repo/src'},
  {'name': 'kani', 'path': 'lib/kani.py + kani/*.rs', 'serves_properties': sorted(set(p for o in obs for p in o.props)), 'kind_free_text': 'Kani/CBMC contract harnesses appended to a scratch copy of the real crate; callers checked against callee contracts via stubs'},
 ],
 'checks': checks,
 'not_applicable': na,
 'notes': 'exit 2 (no VIOLATION line) = undecided: lost anchor, unsupported construct, timeout or solver unknown; never an alarm. known_findings.txt lists fixed defects and known findings.',
}
json.dump(m, open(os.path.join(VERIF, 'MANIFEST.json'), 'w'), indent=1)
print('claimed', claimed)

#!/usr/bin/env python3
"""Stamps out one Kani harness per (function family x kind pair) into kani/js_op.rs after //@GENERATED-PAIRS.
Run by hand when the families change; the generated text is committed."""
import os, re
VERIF = os.path.dirname(os.path.dirname(os.path.abspath(__file__)))
K = ['NULL', 'BOOL', 'NUM', 'STR', 'ARR', 'OBJ']
out = []
def ob(name, harness, props, fns, desc, strength='complete', bound=''):
    b = (' bound="%s"' % bound) if bound else ''
    out.append('    //@ob name=%s harness=%s props=%s strength=%s%s fns=%s stubs=4 timeout=240 replay=generic' % (name, harness, props, strength, b, fns))
    out.append('    //@ desc="%s"' % desc)
for i, a in enumerate(K):
    for j, b in enumerate(K):
        strpair = (a in ('STR', 'ARR', 'OBJ') and b in ('STR', 'ARR', 'OBJ'))
        strength = 'bounded' if strpair else 'complete'
        bound = 'string / container-string-form contents are 1-character labels' if strpair else ''
        if j >= i:
            h = 'k_c07_eq_%s_%s' % (a.lower(), b.lower())
            ob('C07.abstract_eq.%s_%s' % (a.lower(), b.lower()), h, 'C07,C01', 'js_op::abstract_eq,js_op::abstract_ne',
               'abstract_eq(%s,%s) == ES 7.2.14 for every value of these kinds (all i64/u64/finite f64, all bools; string->number and container->string by contract), symmetric, abstract_ne is its negation, no panic' % (a, b), strength, bound)
            out.append('    pair_harness!(%s, body_abstract_eq, K_%s, K_%s);' % (h, a, b))
            h = 'k_c08_seq_%s_%s' % (a.lower(), b.lower())
            ob('C08.strict_eq.%s_%s' % (a.lower(), b.lower()), h, 'C08,C01', 'js_op::strict_eq,js_op::strict_ne',
               'strict_eq(%s,%s) (distinct instances) == same primitive type and value; symmetric; strict_ne negation; === implies ==' % (a, b), strength, bound)
            out.append('    pair_harness!(%s, body_strict_eq, K_%s, K_%s);' % (h, a, b))
        h = 'k_c09_rel_%s_%s' % (a.lower(), b.lower())
        ob('C09.rel.%s_%s' % (a.lower(), b.lower()), h, 'C09', 'js_op::abstract_lt,js_op::abstract_lte,js_op::abstract_gt,js_op::abstract_gte',
           'lt/lte(%s,%s) == ES relational comparison on converted operands (NaN => false); gt(b,a)==lt(a,b); gte(b,a)==lte(a,b)' % (a, b), strength, bound)
        out.append('    pair_harness!(%s, body_rel, K_%s, K_%s);' % (h, a, b))
p = os.path.join(VERIF, 'kani', 'js_op.rs')
s = open(p).read()
head, tail = s.split('//@GENERATED-PAIRS', 1)
# tail: keep from the marker END if present
m = re.search(r'//@END-GENERATED-PAIRS', tail)
rest = tail[m.end():] if m else tail
open(p, 'w').write(head + '//@GENERATED-PAIRS\n' + '\n'.join(out) + '\n    //@END-GENERATED-PAIRS' + rest)

# ---- folds
out2 = []
W = [('add', 0, 'parse_float_add', 'crate::js_op::parse_float', '+ folds parseFloat conversions from 0'),
     ('mul', 1, 'parse_float_mul', 'crate::js_op::parse_float', '* folds parseFloat conversions from 1'),
     ('max', 2, 'abstract_max', 'crate::js_op::to_number', 'max of Number conversions'),
     ('min', 3, 'abstract_min', 'crate::js_op::to_number', 'min of Number conversions')]
for nm, which, fn, target, d in W:
    for n in range(0, 5):
        if which >= 2 and n == 0:
            continue
        for pat in range(0, 1 << n):
            allnum = (pat == (1 << n) - 1)
            # error patterns (a non-numeric operand) cost 80-500 s each and fail from 3 operands on: thorough tier, n <= 2 only
            tier = 'quick' if (n <= 2 and allnum) else ('thorough' if (allnum or n <= 2) else 'off')
            dom = 'every double' if which >= 2 else 'a 16-value grid of concrete doubles per operand'
            pats = ''.join('N' if (pat >> i) & 1 else 'x' for i in range(n)) or 'empty'
            h = 'k_c10_fold_%s_%d_%s' % (nm, n, pats)
            out2.append('    //@ob name=C10.fold.%s.%d.%s harness=%s props=C10,C01 tier=%s strength=bounded bound="%d operands (numeric/non-numeric pattern %s); operand conversions: %s" fns=js_op::%s stubs=4 timeout=400 cutdrop=1' % (nm, n, pats, h, tier, n, pats, dom, fn))
            out2.append('    //@ desc="%s over %d operands: Err iff some operand is non-numeric, else exactly the left fold; conversions by contract"' % (d, n))
            out2.append('    fold_harness!(%s, %d, %d, %s, %d);' % (h, n, which, fn, pat))
s = open(p).read()
head, tail = s.split('//@GENERATED-FOLDS', 1)
rest = tail[tail.index('//@END-GENERATED-FOLDS'):]
open(p, 'w').write(head + '//@GENERATED-FOLDS\n' + '\n'.join(out2) + '\n' + rest)
print(len(out), len(out2))

# ---- lazy logic operators
def gen_lazy():
    out3 = []
    def pats(n):
        # digit: 0 Err, 1 New, 2 Raw. Keep it small: every Err/Ok pattern with Ok alternating New/Raw
        res = []
        for mask in range(1 << n):
            digits = []
            for i in range(n):
                ok = (mask >> i) & 1
                digits.append(0 if not ok else (1 if i % 2 == 0 else 2))
            # an Err after an earlier Err is never reached: keep only patterns with at most one Err, all-later Ok
            if digits.count(0) <= 1:
                res.append(digits)
        return res
    for op, body, fn in [('or', 'body_or', 'or'), ('and', 'body_and', 'and'), ('if', 'body_if', 'if_')]:
        for n in range(0, 6):
            if op != 'if' and n == 0:
                continue
            plist = [(d, False) for d in pats(n)]
            # parse-poisoned operand (P) in the last position: an unselected operand that does not even parse must not matter
            if n in (2, 3):
                plist.append(([1] * (n - 1) + [3], True))
            for digits, poison in plist:
                pat = sum(d * 4 ** i for i, d in enumerate(digits))
                label = ''.join('ENRP'[d] for d in digits) or 'none'
                efirst = (0 in digits and digits.index(0) < n - 1)
                tier = 'quick' if ((n <= 2 or (n == 3 and 0 not in digits)) and not efirst) else 'thorough'
                if poison or efirst:
                    # an error that is not the last outcome (or a parse error after symbolic truthiness): the Err value
                    # travels through the fold accumulator and CBMC explores its drop glue: 350-600 s then memory failure
                    tier = 'off'
                grp = 'heavy' if efirst else 'medium'
                h = 'k_c05_%s_%d_%s' % (op, n, label)
                out3.append('    //@ob name=C05.%s.%d.%s harness=%s props=C05,C04 tier=%s strength=bounded bound="%d operands; outcome pattern %s (E=evaluation error, N=new value, R=raw value, P=does not parse); truthiness of every value symbolic" fns=op::logic::%s stubs=4 timeout=300 cutdrop=1 group=%s' % (op, n, label, h, tier, n, label, fn, grp))
                out3.append('    //@ desc="%s over %d operands: result (the deciding operand\'s value itself, or error/null) and the exact evaluation log (which operands, in which order, each at most once, against the outer data) equal the spec; an operand that is not needed has no effect even if it is invalid; the parser is applied to rule text only"' % (op, n))
                out3.append('    lazy_harness!(%s, %d, %d, %s);' % (h, n, pat, body))
    p = os.path.join(VERIF, 'kani', 'op__logic.rs')
    s = open(p).read()
    head, tail = s.split('//@GENERATED-LAZY', 1)
    rest = tail[tail.index('//@END-GENERATED-LAZY'):]
    open(p, 'w').write(head + '//@GENERATED-LAZY\n' + '\n'.join(out3) + '\n' + rest)
    print('lazy', len(out3) // 3)
gen_lazy()

def gen_keys():
    out = []
    for n in range(0, 14):
        tier = 'quick' if n <= 6 else 'thorough'
        h = 'k_c02_keys_len%d' % n
        out.append('    //@ob name=C02.keys.len%d harness=%s props=C02 tier=%s strength=bounded bound="every ASCII key of exactly %d bytes (all 128^%d of them, symbolic); longest operator name has 12" fns=op::OPERATOR_MAP,op::DATA_OPERATOR_MAP,op::LAZY_OPERATOR_MAP replay=generic timeout=300' % (n, h, tier, n, n))
        out.append('    //@ desc="for every key of this length: table.get(key) is Some iff key is exactly one of the operator names of that table (no prefix, case variant or padded spelling), on the real phf code"')
        out.append('    key_harness!(%s, %d);' % (h, n))
    p = os.path.join(VERIF, 'kani', 'op__mod.rs')
    s = open(p).read()
    head, tail = s.split('//@GENERATED-KEYS', 1)
    rest = tail[tail.index('//@END-GENERATED-KEYS'):]
    open(p, 'w').write(head + '//@GENERATED-KEYS\n' + '\n'.join(out) + '\n' + rest)
gen_keys()


def gen_names():
    EAGER = ["==", "!=", "===", "!==", "!", "!!", "<", "<=", ">", ">=", "+", "-", "*", "/", "%", "max", "min", "merge", "in", "cat", "substr", "log"]
    DATA = ["var", "missing", "missing_some"]
    LAZY = ["if", "?:", "or", "and", "map", "filter", "reduce", "all", "some", "none"]
    allnames = [(n, 0) for n in EAGER] + [(n, 1) for n in DATA] + [(n, 2) for n in LAZY]
    out = []
    # codegen cost is per harness (every table entry function is reachable), so names are grouped 5 per harness
    for gi in range(0, len(allnames), 5):
        grp = allnames[gi:gi + 5]
        h = 'k_c03_names_%d' % (gi // 5)
        names = ' '.join('`%s`' % n for n, _ in grp)
        extra = ',C05' if any(n in ('if', '?:') for n, _ in grp) else ''
        out.append('    //@ob name=C03.table.names%d harness=%s props=C03,C02%s strength=complete fns=op::OPERATOR_MAP,op::DATA_OPERATOR_MAP,op::LAZY_OPERATOR_MAP,op::NumParams::is_valid_len,op::NumParams::can_accept_unary replay=generic timeout=400' % (gi // 5, h, extra))
        out.append('    //@ desc="%s: each is a key of exactly its own compiled table, carries its own symbol, accepts n operands iff n is in its documented set for EVERY usize n, and accepts the unbracketed form whenever it accepts one operand"' % names)
        out.append('    #[cfg_attr(kani, kani::proof)]')
        out.append('    #[cfg_attr(kani, kani::unwind(24))]')
        out.append('    pub(crate) fn %s() {' % h)
        for n, t in grp:
            out.append('        check_name("%s", %d);' % (n, t))
        out.append('    }')
    p = os.path.join(VERIF, 'kani', 'op__mod.rs')
    s = open(p).read()
    head, tail = s.split('//@GENERATED-NAMES', 1)
    rest = tail[tail.index('//@END-GENERATED-NAMES'):]
    open(p, 'w').write(head + '//@GENERATED-NAMES\n' + '\n'.join(out) + '\n' + rest)
gen_names()


def gen_arity():
    EAGER = ["==", "!=", "===", "!==", "!", "!!", "<", "<=", ">", ">=", "+", "-", "*", "/", "%", "max", "min", "merge", "in", "cat", "substr", "log"]
    DATA = ["var", "missing", "missing_some"]
    LAZY = ["if", "?:", "or", "and", "map", "filter", "reduce", "all", "some", "none"]
    ident = {'==': 'eq', '!=': 'ne', '===': 'seq', '!==': 'sne', '!': 'not', '!!': 'notnot', '<': 'lt', '<=': 'lte', '>': 'gt', '>=': 'gte',
             '+': 'plus', '-': 'minus', '*': 'mul', '/': 'div', '%': 'mod', '?:': 'ternary'}
    quick = {'==', '!', '<', '+', '-', '*', 'var', 'reduce', 'if'}
    out = []
    for t, lst in enumerate([EAGER, DATA, LAZY]):
        for nm in lst:
            idn = ident.get(nm, nm)
            h = 'k_c03_arity_%s' % idn
            tier = 'quick' if nm in quick else 'thorough'
            out.append('    //@ob name=C03.dispatch.%s harness=%s props=C03,C02,C01 tier=%s strength=bounded bound="operand counts 0..6 and the unbracketed form (is_valid_len itself: Verus, every usize)" fns=op::op_from_map,op::NumParams::check_len replay=generic stubs=1 timeout=400' % (idn, h, tier))
            out.append('    //@ desc="{\\"%s\\": [a1..an]} for n=0..6 is dispatched with exactly the n operands in order iff n is documented, otherwise Err(WrongArgumentCount); {\\"%s\\": x} behaves exactly as {\\"%s\\": [x]}"' % (nm, nm, nm))
            out.append('    arity_harness!(%s, %s, "%s", 0, 6, true);' % (h, ['OPERATOR_MAP', 'DATA_OPERATOR_MAP', 'LAZY_OPERATOR_MAP'][t], nm))
    p = os.path.join(VERIF, 'kani', 'op__mod.rs')
    s = open(p).read()
    head, tail = s.split('//@GENERATED-ARITY', 1)
    rest = tail[tail.index('//@END-GENERATED-ARITY'):]
    open(p, 'w').write(head + '//@GENERATED-ARITY\n' + '\n'.join(out) + '\n' + rest)
# gen_arity()  -- op_from_map on real BTreeMap-backed objects does not finish in CBMC; it is under Verus instead


def gen_array():
    out = []
    modes = {0: 'lit', 1: 'cnew', 2: 'craw', 3: 'litnull', 4: 'cnull', 5: 'litnum', 6: 'cerr', 7: 'cbool', 8: 'czero'}
    def q(op, mode, n, epat, ppat, tier, note):
        is_all = 'true' if op == 'all' else 'false'
        h = 'k_c14_%s_%s_%d_e%d_p%d' % (op, modes[mode], n, epat, ppat)
        props = 'C14,C04,C06,C01'
        out.append('    //@ob name=C14.%s.%s.%d.e%d.p%d harness=%s props=%s tier=%s strength=bounded bound="%s; %d elements; element/predicate success pattern e=%s p=%s; values and predicate answers symbolic" fns=op::array::%s stubs=4 timeout=200 cutdrop=%d group=medium'
                   % (op, modes[mode], n, epat, ppat, h, props, tier, note, n, bin(epat), bin(ppat), op, 1 if mode in (0, 3, 5) else 2))
        out.append('    //@ desc="%s: truth value, error cases, short-circuit evaluation log and scoping (literal-array elements evaluated against the outer data, computed elements passed as data UNPARSED, predicate sees the element) equal the spec"' % op)
        out.append('    quant_harness!(%s, %s, %d, %d, %d, %d, %d);' % (h, is_all, mode, n, epat, ppat, n + 3))
        if n > 0:
            # an array stored inside a Value loses its constant len/ptr in Kani's enum encoding: CBMC then explores the
            # closure body for iterations that cannot happen, with unknown elements (> 900 s, memory cap): never selected
            out[-3] = out[-3].replace('tier=%s ' % tier, 'tier=off ')
    for op in ('all', 'some'):
        q(op, 0, 2, 3, 3, 'quick', 'collection written as a literal array of expressions')
        q(op, 1, 2, 3, 3, 'quick', 'collection computed (fresh array)')
        q(op, 2, 1, 1, 1, 'quick', 'collection computed (borrowed array)')
        q(op, 0, 0, 0, 0, 'quick', 'empty literal array')
        q(op, 0, 1, 1, 1, 'quick', 'literal array of one expression')
        q(op, 1, 1, 1, 1, 'quick', 'computed array of one (fresh)')
        q(op, 3, 0, 0, 0, 'quick', 'literal null')
        q(op, 4, 0, 0, 0, 'quick', 'computed null')
        q(op, 5, 0, 0, 0, 'quick', 'literal number (not a collection)')
        q(op, 6, 0, 0, 0, 'off', 'collection evaluation fails')
        q(op, 7, 0, 0, 0, 'thorough', 'computed boolean (not a collection)')
        q(op, 8, 0, 0, 0, 'quick', 'computed number 0 (falsy, but not a collection: an error, not empty)')
        q(op, 0, 2, 1, 3, 'thorough', 'literal array, second element expression fails')
        q(op, 1, 2, 3, 1, 'thorough', 'computed array, second predicate call fails')
        q(op, 0, 3, 7, 7, 'thorough', 'literal array of three')
        q(op, 1, 3, 7, 7, 'thorough', 'computed array of three')
    p = os.path.join(VERIF, 'kani', 'op__array.rs')
    s = open(p).read()
    head, tail = s.split('//@GENERATED-QUANT', 1)
    rest = tail[tail.index('//@END-GENERATED-QUANT'):]
    s = head + '//@GENERATED-QUANT\n' + '\n'.join(out) + '\n' + rest
    out = []
    cm = {0: 'new', 1: 'raw', 2: 'null', 3: 'other', 4: 'err'}
    def mf(op, cmode, n, ppat, tier):
        h = 'k_c13_%s_%s_%d_p%d' % (op, cm[cmode], n, ppat)
        out.append('    //@ob name=C13.%s.%s.%d.p%d harness=%s props=C13,C04,C06,C01 tier=%s strength=bounded bound="collection outcome %s; %d elements; expression success pattern %s; element values and expression values symbolic" fns=op::array::%s stubs=4 timeout=300 cutdrop=2 group=medium'
                   % (op, cm[cmode], n, ppat, h, tier, cm[cmode], n, bin(ppat), op))
        out.append('    //@ desc="%s: collection evaluated once against the outer data, expression once per element with the element itself as data, in order; result = %s; null collection is empty, other non-arrays and failing evaluations are errors"'
                   % (op, 'the expression values in order (same length)' if op == 'map' else 'exactly the elements whose value is truthy, unchanged, in order'))
        out.append('    mapfilter_harness!(%s, %s, %d, %d, %d, %d);' % (h, 'true' if op == 'map' else 'false', cmode, n, ppat, n + 3))
        if n > 0:
            out[-3] = out[-3].replace('tier=%s ' % tier, 'tier=off ')
    for op in ('map', 'filter'):
        mf(op, 0, 2, 3, 'quick')
        mf(op, 1, 2, 3, 'quick')
        mf(op, 2, 0, 0, 'quick')
        mf(op, 3, 0, 0, 'quick')
        mf(op, 4, 0, 0, 'off')
        mf(op, 0, 0, 0, 'off')
        mf(op, 1, 2, 1, 'thorough')
        mf(op, 0, 3, 7, 'thorough')
    head, tail = s.split('//@GENERATED-MAPFILTER', 1)
    rest = tail[tail.index('//@END-GENERATED-MAPFILTER'):]
    open(p, 'w').write(head + '//@GENERATED-MAPFILTER\n' + '\n'.join(out) + '\n' + rest)
gen_array()



def _splice(path, marker, lines):
    s = open(path).read()
    head, tail = s.split('//@GENERATED-' + marker + '\n', 1)
    rest = tail[tail.index('//@END-GENERATED-' + marker):]
    open(path, 'w').write(head + '//@GENERATED-' + marker + '\n' + '\n'.join(lines) + '\n' + rest)


def gen_data():
    p = os.path.join(VERIF, 'kani', 'op__data.rs')
    out = []
    kk = {0: 'str', 1: 'int', 2: 'null', 3: 'empty', 4: 'bool', 5: 'float'}
    def v(nargs, kkind, pres, tier):
        h = 'k_c11_var_%d_%s_p%d' % (nargs, kk[kkind], pres)
        out.append('    //@ob name=C11.var.%d.%s.p%d harness=%s props=C11,C04,C01 tier=%s strength=bounded bound="%d operands; key kind %s (integer keys: every i64); lookup present-pattern %s; data, found value and default symbolic numbers" fns=op::data::var stubs=5 timeout=300 cutdrop=1 group=medium' % (nargs, kk[kkind], pres, h, tier, nargs, kk[kkind], bin(pres)))
        out.append('    //@ desc="var: operand-less / null / \\"\\" => entire data; present value (whatever it is) wins over the default; absent => the default AS GIVEN (the parser is never applied to it: C04) else null; bad key kinds => error; exactly one lookup against the data (lookup by contract)"')
        out.append('    var_harness!(%s, %d, %d, %d);' % (h, nargs, kkind, pres))
    v(0, 0, 0, 'quick'); v(1, 0, 1, 'quick'); v(1, 0, 0, 'quick'); v(2, 0, 1, 'quick'); v(2, 0, 0, 'quick')
    v(2, 1, 8, 'quick'); v(2, 1, 0, 'quick'); v(1, 2, 0, 'quick'); v(2, 3, 0, 'thorough'); v(1, 4, 0, 'quick'); v(2, 5, 0, 'thorough'); v(1, 1, 8, 'thorough')
    _splice(p, 'VAR', out)
    out = []
    def m(shape, pres, tier):
        h = 'k_c12_missing_s%d_p%d' % (shape, pres)
        out.append('    //@ob name=C12.missing.s%d.p%d harness=%s props=C12,C01 tier=%s strength=bounded bound="key-list shape %d; present-pattern %s over keys a,b,c,integer" fns=op::data::missing stubs=3 timeout=200 cutdrop=2 group=medium' % (shape, pres, h, tier, shape, bin(pres)))
        out.append('    //@ desc="missing: exactly the requested non-null keys whose lookup finds nothing, in request order; a first operand that is an array supplies the whole list; non-key kinds are errors (lookup by contract, the same one var uses)"')
        out.append('    missing_harness!(%s, %d, %d);' % (h, shape, pres))
        if shape != 4:
            out[-3] = out[-3].replace('tier=%s ' % tier, 'tier=off ')
    m(0, 0, 'quick'); m(0, 1, 'quick'); m(0, 3, 'thorough'); m(1, 2, 'quick'); m(2, 0, 'quick'); m(2, 9, 'thorough'); m(3, 0, 'quick'); m(4, 0, 'quick'); m(5, 1, 'thorough'); m(5, 0, 'thorough')
    _splice(p, 'MISSING', out)
    out = []
    def ms(shape, pres, tier):
        h = 'k_c12_missing_some_s%d_p%d' % (shape, pres)
        out.append('    //@ob name=C12.missing_some.s%d.p%d harness=%s props=C12,C01 tier=%s strength=bounded bound="key-list shape %d; present-pattern %s; EVERY u64 threshold" fns=op::data::missing_some stubs=4 timeout=200 cutdrop=2 group=medium' % (shape, pres, h, tier, shape, bin(pres)))
        out.append('    //@ desc="missing_some: for every threshold, [] iff the number of listed keys that are present reaches it (an absent key never counts, however often listed); otherwise the distinct missing keys in first-occurrence order"')
        out.append('    missing_some_harness!(%s, %d, %d);' % (h, shape, pres))
        out[-3] = out[-3].replace('tier=%s ' % tier, 'tier=off ')
    ms(0, 0, 'quick'); ms(0, 1, 'quick'); ms(0, 3, 'thorough'); ms(1, 0, 'quick'); ms(1, 1, 'thorough'); ms(2, 2, 'quick'); ms(2, 0, 'thorough'); ms(3, 0, 'quick'); ms(4, 1, 'thorough')
    _splice(p, 'MISSING-SOME', out)
gen_data()



def gen_s2n():
    p = os.path.join(VERIF, 'kani', 'js_op.rs')
    out = []
    for alpha, nm, what in [('ALPHA_NUM', 'num', '0 1 9 . - + e E space tab x a'), ('ALPHA_WORD', 'word', 'i n f I N a t y 1 - space A'), ('ALPHA_RADIX', 'radix', '0 x X b o 1 7 f - g')]:
        for n in range(0, 6):
            if nm == 'word' and n in (1, 2):
                pass
            tier = 'quick' if n <= 2 else 'thorough'
            h = 'k_c07_s2n_%s_%d' % (nm, n)
            out.append('    //@ob name=C07.str_to_number.%s.%d harness=%s props=C07,C09,C10 tier=%s strength=bounded bound="every string of exactly %d characters over the alphabet {%s}" fns=js_op::str_to_number stubs=1 replay=generic timeout=300' % (nm, n, h, tier, n, what))
            out.append('    //@ desc="str_to_number(s) == ECMAScript StringToNumber(s): surrounding whitespace ignored, \\"\\" is 0, only `Infinity` spelled that way, 0x/0o/0b literals honoured (unsigned), decimal literals by from_str (assumed contract), anything else non-numeric"')
            out.append('    s2n_harness!(%s, %d, %s);' % (h, n, alpha))
    _splice(p, 'S2N', out)
gen_s2n()



def gen_c15():
    p = os.path.join(VERIF, 'kani', 'op__array.rs')
    out = []
    names = {0: 'scalar', 1: 'empty', 2: 'pair', 3: 'nested'}
    def mg(digits, tier):
        n = len(digits)
        shape = sum(d * 4 ** i for i, d in enumerate(digits))
        lab = '_'.join(names[d] for d in digits) or 'none'
        h = 'k_c15_merge_%s' % lab
        out.append('    //@ob name=C15.merge.%s harness=%s props=C15,C01 tier=%s strength=bounded bound="operand shapes (%s); element values symbolic" fns=op::array::merge stubs=2 timeout=300 cutdrop=3 group=medium' % (lab, h, tier, ', '.join(names[d] for d in digits)))
        out.append('    //@ desc="merge: concatenation in operand order, array operands spliced exactly one level (a nested array stays one element), every other value one element; length law"')
        out.append('    merge_harness!(%s, %d, %d);' % (h, n, shape))
    mg([], 'quick'); mg([0], 'quick'); mg([2], 'quick'); mg([2, 0], 'off'); mg([3], 'quick'); mg([1, 2], 'off'); mg([0, 2, 3], 'off'); mg([2, 2], 'off')
    _splice(p, 'MERGE', out)
    out = []
    nkn = {0: 'null', 1: 'bool', 2: 'num', 3: 'str', 4: 'arr'}
    hkn = {0: 'null', 1: 'bool', 2: 'num', 3: 'obj', 4: 'str', 5: 'arr'}
    for nk, hk, tier in [(2, 0, 'quick'), (3, 0, 'thorough'), (2, 1, 'thorough'), (3, 2, 'quick'), (0, 3, 'quick'), (3, 4, 'quick'), (2, 4, 'quick'), (4, 4, 'thorough'), (0, 5, 'quick'), (2, 5, 'quick'), (1, 5, 'thorough')]:
        h = 'k_c15_in_%s_in_%s' % (nkn[nk], hkn[hk])
        strength = 'bounded' if (hk == 4 or nk == 3) else 'complete'
        bound = ' bound="strings of one symbolic ASCII byte"' if strength == 'bounded' else ''
        out.append('    //@ob name=C15.in.%s_in_%s harness=%s props=C15,C01 tier=%s strength=%s%s fns=op::array::in_ stubs=2 replay=generic timeout=200' % (nkn[nk], hkn[hk], h, tier, strength, bound))
        out.append('    //@ desc="in(needle: %s, haystack: %s): null haystack => false; string haystack => both strings, substring; array => membership; any other haystack => error"' % (nkn[nk], hkn[hk]))
        out.append('    in_harness!(%s, %d, %d);' % (h, nk, hk))
    _splice(p, 'IN', out)
gen_c15()



def gen_c16():
    p = os.path.join(VERIF, 'kani', 'op__string.rs')
    out = []
    kn = {0: 'str', 1: 'num', 2: 'arr'}
    def c(digits, tier):
        n = len(digits)
        kinds = sum(d * 3 ** i for i, d in enumerate(digits))
        lab = '_'.join(kn[d] for d in digits) or 'none'
        h = 'k_c16_cat_%s' % lab
        out.append('    //@ob name=C16.cat.%s harness=%s props=C16,C01 tier=%s strength=bounded bound="operand kinds (%s); string contents / string forms: one symbolic ASCII byte each" fns=op::string::cat stubs=2 timeout=200 cutdrop=1' % (lab, h, tier, ', '.join(kn[d] for d in digits)))
        out.append('    //@ desc="cat: the concatenation, in operand order, of string operands unchanged and of to_string(v) for every other operand (to_string by contract); so concatenating in pieces equals concatenating at once"')
        out.append('    cat_harness!(%s, %d, %d);' % (h, n, kinds))
    c([], 'quick'); c([0], 'quick'); c([1], 'quick'); c([0, 1], 'quick'); c([2, 0], 'quick'); c([0, 0, 0], 'thorough'); c([1, 0, 2], 'thorough')
    _splice(p, 'CAT', out)
gen_c16()



def gen_substr():
    p = os.path.join(VERIF, 'kani', 'op__string.rs')
    out = []
    qn = {0: 'all', 1: 'pp', 2: 'pn', 3: 'np', 4: 'nn'}
    qd = {0: 'EVERY i64', 1: 'start >= 0, length >= 0', 2: 'start >= 0, length < 0', 3: 'start < 0, length >= 0', 4: 'start < 0, length < 0'}
    for has_len in (False, True):
        for l in range(0, 4):
            quads = [0]
            for q in quads:
                k = 3 if has_len else 2
                h = 'k_c16_substr_abstract_%d_len%d_%s' % (k, l, qn[q])
                name = '%d.len%d.%s' % (k, l, qn[q])
                tier = 'quick'
                out.append('    //@ob name=C16.substr.abstract.%d.len%d.%s harness=%s props=C16,C01 tier=%s strength=bounded bound="a string of %d characters (abstract: Chars by contract, real Skip/Take/collect); start%s: %s (all 64-bit values of that sign)" fns=op::string::substr stubs=6 timeout=600 group=heavy' % (k, l, qn[q], h, tier, l, '/length' if has_len else '', qd[q]))
                out.append('    //@ desc="substr on a %d-character string, for every 64-bit start%s in the stated sign class: the result is exactly the characters the statement describes (skip / count from the end; take / stop before the end; clamped), counted in characters, never bytes"' % (l, ' and length' if has_len else ''))
                out.append('    substr_abstract_harness!(%s, %s, %d, %d);' % (h, 'true' if has_len else 'false', l, q))
    _splice(p, 'SUBSTR', out)
gen_substr()

#!/bin/bash
# runs every property's check (tier $1, default quick) in /verif and prints one summary line each
cd /verif
TIER=${1:-quick}
for p in ${PROPS:-C01 C02 C03 C04 C05 C06 C07 C08 C09 C10 C11 C13 C14 C15 C16}; do
  s=$(date +%s)
  ./check $p --tier $TIER > .logs/run_all_$p.txt 2>&1
  rc=$?
  e=$(date +%s)
  ok=$(grep -c "^ok" .logs/run_all_$p.txt); fail=$(grep -c "^FAIL" .logs/run_all_$p.txt); und=$(grep -c "^??" .logs/run_all_$p.txt)
  echo "$p rc=$rc ok=$ok fail=$fail undecided=$und wall=$((e-s))s"
  grep -E "^(FAIL|\?\?)" .logs/run_all_$p.txt | cut -c1-170
done

// Trusted prelude of every assembled Verus file (listed in evidence.trusted_base).
// It contains NO code of json-logic-rs: only the shim for the serde_json types the real
// function bodies mention, and assumed contracts on std items (assume_specification).
#![allow(unused_imports, dead_code, unused_variables, unused_macros, unused_mut, unused_parens, non_snake_case)]
use vstd::prelude::*;
use std::cmp;
use std::convert::TryInto;

// `format!` is answered by "some String": message text is never part of a property.
macro_rules! format { ($($t:tt)*) => { String::new() } }

verus! {
global size_of usize == 8;

// ---------------------------------------------------------------- serde_json shim
#[verifier::external_body]
pub struct Number { _p: u8 }

impl Number {
    pub uninterp spec fn spec_as_i64(&self) -> Option<i64>;
    pub uninterp spec fn spec_as_u64(&self) -> Option<u64>;
    pub uninterp spec fn spec_is_zero(&self) -> bool;

    #[verifier::external_body]
    pub fn as_i64(&self) -> (r: Option<i64>)
        ensures r == self.spec_as_i64()
    { unimplemented!() }

    #[verifier::external_body]
    pub fn as_u64(&self) -> (r: Option<u64>)
        ensures r == self.spec_as_u64()
    { unimplemented!() }

    // as_f64 is deliberately given NO postcondition: floats are uninterpreted in this Verus,
    // everything numeric is Kani's job.
    #[verifier::external_body]
    pub fn as_f64(&self) -> (r: Option<f64>)
    { unimplemented!() }
}

#[verifier::external_body]
pub struct Map { _p: u8 }

pub enum Value {
    Null,
    Bool(bool),
    Number(Number),
    String(String),
    Array(Vec<Value>),
    Object(Map),
}

impl Clone for Number {
    #[verifier::external_body]
    fn clone(&self) -> (r: Self)
        ensures r == *self
    { unimplemented!() }
}

impl Clone for Value {
    #[verifier::external_body]
    fn clone(&self) -> (r: Self)
        ensures r == *self
    { unimplemented!() }
}

impl Value {
    // accessors of serde_json::Value that a changed body may use: uninterpreted, no guarantees beyond the kind
    #[verifier::external_body]
    pub fn as_i64(&self) -> (r: Option<i64>)
        ensures r is Some ==> self is Number
    { unimplemented!() }
    #[verifier::external_body]
    pub fn as_u64(&self) -> (r: Option<u64>)
        ensures r is Some ==> self is Number
    { unimplemented!() }
    #[verifier::external_body]
    pub fn as_f64(&self) -> (r: Option<f64>)
        ensures r is Some ==> self is Number
    { unimplemented!() }
    #[verifier::external_body]
    pub fn is_number(&self) -> (r: bool)
        ensures r == (self is Number)
    { unimplemented!() }
    #[verifier::external_body]
    pub fn is_string(&self) -> (r: bool)
        ensures r == (self is String)
    { unimplemented!() }
    #[verifier::external_body]
    pub fn is_array(&self) -> (r: bool)
        ensures r == (self is Array)
    { unimplemented!() }
    #[verifier::external_body]
    pub fn is_null(&self) -> (r: bool)
        ensures r == (self is Null)
    { unimplemented!() }
}

pub const NULL: Value = Value::Null;

// ---------------------------------------------------------------- assumed contracts on std
// i64::abs panics (overflow-checks) / wraps exactly at i64::MIN: the precondition IS the
// "no absolute value" hazard named by C01.
pub assume_specification [i64::abs] (x: i64) -> (r: i64)
    requires x != i64::MIN
    ensures r >= 0, r == if x >= 0 { x as int } else { -(x as int) };

pub assume_specification [i64::unsigned_abs] (x: i64) -> (r: u64)
    ensures r as int == if x >= 0 { x as int } else { -(x as int) };

// Option::transpose : Option<Result<T,E>> -> Result<Option<T>,E>
pub assume_specification<T, E> [Option::<Result<T, E>>::transpose] (o: Option<Result<T, E>>) -> (r: Result<Option<T>, E>)
    ensures
        o is None ==> r == Ok::<Option<T>, E>(None),
        o is Some && o->Some_0 is Ok ==> r == Ok::<Option<T>, E>(Some(o->Some_0->Ok_0)),
        o is Some && o->Some_0 is Err ==> r == Err::<Option<T>, E>(o->Some_0->Err_0);

// String::len is the BYTE length: deliberately an uninterpreted value unrelated to the character
// sequence s@ (so nothing about characters can be concluded from it).
pub uninterp spec fn spec_byte_len(s: &String) -> usize;
pub assume_specification [String::len] (s: &String) -> (r: usize)
    ensures r == spec_byte_len(s);

pub assume_specification<T: Ord> [std::cmp::min::<T>] (a: T, b: T) -> (r: T)
    ensures r == a || r == b;

pub assume_specification<T> [Option::<T>::or] (a: Option<T>, b: Option<T>) -> (r: Option<T>)
    ensures r == (if a is Some { a } else { b });

// Chars::count is the CHARACTER count: an uninterpreted value (nothing relates it to the byte length).
pub uninterp spec fn spec_char_count<'a>(c: std::str::Chars<'a>) -> usize;
pub assume_specification<'a> [<std::str::Chars<'a> as std::iter::Iterator>::count] (c: std::str::Chars<'a>) -> (r: usize)
    ensures r == spec_char_count(c);

// str::trim / trim_start / trim_end: some substring of the argument - NOTHING is assumed about which (in
// particular not that it equals the argument), so a body that looks a key up after trimming it cannot be
// proved to look up the key itself
pub assume_specification [str::trim] (s: &str) -> (r: &str);
pub assume_specification [str::trim_start] (s: &str) -> (r: &str);
pub assume_specification [str::trim_end] (s: &str) -> (r: &str);


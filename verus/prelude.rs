// Trusted prelude of every assembled Verus file (listed in evidence.trusted_base).
// It contains NO code of json-logic-rs: only the shim for the serde_json types the real
// function bodies mention, and assumed contracts on std items (assume_specification).
#![allow(unused_imports, dead_code, unused_variables, unused_macros, unused_mut, unused_parens, non_snake_case)]
use vstd::prelude::*;
use std::cmp;
use std::convert::TryInto;

// `format!` is answered by "some String": message text is never part of a property.
macro_rules! format { ($($t:tt)*) => { String::new() } }

verus! {
global size_of usize == 8;

// ---------------------------------------------------------------- serde_json shim
#[verifier::external_body]
pub struct Number { _p: u8 }

impl Number {
    pub uninterp spec fn spec_as_i64(&self) -> Option<i64>;
    pub uninterp spec fn spec_as_u64(&self) -> Option<u64>;
    pub uninterp spec fn spec_is_zero(&self) -> bool;

    #[verifier::external_body]
    pub fn as_i64(&self) -> (r: Option<i64>)
        ensures r == self.spec_as_i64()
    { unimplemented!() }

    #[verifier::external_body]
    pub fn as_u64(&self) -> (r: Option<u64>)
        ensures r == self.spec_as_u64()
    { unimplemented!() }

    // as_f64 is deliberately given NO postcondition: floats are uninterpreted in this Verus,
    // everything numeric is Kani's job.
    #[verifier::external_body]
    pub fn as_f64(&self) -> (r: Option<f64>)
    { unimplemented!() }
}

#[verifier::external_body]
pub struct Map { _p: u8 }

pub enum Value {
    Null,
    Bool(bool),
    Number(Number),
    String(String),
    Array(Vec<Value>),
    Object(Map),
}

impl Clone for Number {
    #[verifier::external_body]
    fn clone(&self) -> (r: Self)
        ensures r == *self
    { unimplemented!() }
}

impl Clone for Value {
    #[verifier::external_body]
    fn clone(&self) -> (r: Self)
        ensures r == *self
    { unimplemented!() }
}

pub const NULL: Value = Value::Null;

// ---------------------------------------------------------------- assumed contracts on std
// i64::abs panics (overflow-checks) / wraps exactly at i64::MIN: the precondition IS the
// "no absolute value" hazard named by C01.
pub assume_specification [i64::abs] (x: i64) -> (r: i64)
    requires x != i64::MIN
    ensures r >= 0, r == if x >= 0 { x as int } else { -(x as int) };

pub assume_specification [i64::unsigned_abs] (x: i64) -> (r: u64)
    ensures r as int == if x >= 0 { x as int } else { -(x as int) };


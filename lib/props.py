"""Per-property static metadata (what is claimed, what is not) and the assumption scan."""
import os
import re

VERIF = os.path.dirname(os.path.dirname(os.path.abspath(__file__)))

TRUSTED_BASE = [
    "rustc, Verus 0.2026.09.13 + z3, Kani 0.68 + CBMC 6.11 + CaDiCaL; Kani's models of std (allocation never fails, panic=abort)",
    "V: the serde_json shim in /verif/verus/prelude.rs (enum Value with the six real variants; Number/Map opaque) and the assume_specification list there",
    "V extraction drops: attributes/doc comments, visibility, `use` lines; `format!` is answered by a shim macro; a local named `int`/`nat` is alpha-renamed",
    "K: named stubs are assumed contracts: std::fmt::format returns some String; f64::from_str per stated grammar; others listed per obligation under `stubs`",
    "K: --no-overflow-checks disables CBMC's float-NaN/overflow instrumentation only; Rust's own overflow/index/unwrap panics stay checked",
    "serde_json 1.0.151 as pinned in Cargo.lock; its PartialEq/Clone/Number::to_string are trusted as documented",
]

PROPS = {}


def _p(pid, level, explanation, not_covered=()):
    PROPS[pid] = {'level': level, 'explanation': explanation, 'not_covered': list(not_covered)}


_p('C01', 'proof',
   'Panic-freedom of operator and coercion functions as contracts: Verus proves absence of overflow / out-of-bounds / failed '
   'unwrap for the functions it holds verbatim, for all inputs; Kani proves it bit-precisely for loop-free float/scalar code '
   '(complete) and for bounded Value shapes (bounded, listed).',
   ['stack depth at nesting 128 (frame sizes are a compiler artefact)', 'CLI exit status and Python exception type (process/FFI boundary)',
    'termination of functions not held by Verus is argued in DESIGN.md, not discharged'])
_p('C02', 'proof', 'Raw parser returns the same pointer; op_from_map returns None for non-single-key objects and unknown keys; '
   'the compiled phf tables answer Some exactly on the 35 names (Kani on the real phf code).')
_p('C03', 'proof', 'is_valid_len / can_accept_unary against the spec (Verus, all usize); every table entry accepts exactly the documented '
   'arities for ALL n (Kani, loop-free over symbolic usize, on the compiled tables); op_from_map wrapping/arity (Kani, bounded operand count).')
_p('C04', 'other', 'Contract: the parser is applied to rule-text nodes only. Kani harnesses replace Parsed::from_value by an asserting stub '
   '(ghost registry of rule-text addresses): var never parses its (already evaluated) default; or/and/if parse registered operand nodes only and evaluate each at most once.',
   ['all/some over computed collections, map/filter/reduce elements and Operation::evaluate with operands: harnesses exist but do not finish in CBMC (DESIGN.md 0.4)'])
_p('C05', 'other', 'if/and/or: result and evaluation log equal the spec over operand outcome classes (error / fresh value / borrowed value, truthiness symbolic); evaluator abstracted by contract stubs; ?: is the same function as if (complete). Bounded operand count (0..3 quick, ..5 thorough).')
_p('C06', 'proof', 'truthy equals the JsonLogic table: Verus for null/bool/array/object of any size; Kani for every JSON number and strings.')
_p('C07', 'proof', 'abstract_eq equals ECMA-262 7.2.14 per kind pair (Kani complete over all JSON numbers/bools; string contents by contract stub); symmetry; != is negation.')
_p('C08', 'proof', 'strict_eq table per kind pair, !== negation, === implies ==, symmetry (Kani complete on scalars).')
_p('C09', 'proof', 'abstract_lt/gt/lte/gte equal the ES relational spec per kind pair; duality; compare() 2/3-operand form (Verus, verbatim).')
_p('C10', 'proof', 'to_number_value exact for all 2^64 doubles; binary arithmetic helpers exact with to_number abstracted by contract; folds bounded.')
_p('C11', 'proof', 'get(): negative-index contract for all slices and all i64 (Verus, verbatim; Kani twin); split_with_escape cannot panic (Verus); var: default selection with the lookup by contract (Kani, bounded key kinds, every i64 integer key).',
   ['get_key / get_str_key path descent and split_with_escape as a function: not under contract'])
_p('C12', 'other', 'missing / missing_some over an abstract presence function (get_key by contract); bounded key count.')
_p('C13', 'other', 'map/filter: the collection operand is evaluated once against the outer data; a null collection is empty; other non-arrays and failing evaluations are errors (evaluator by contract).',
   ['per-element behaviour of map/filter and all of reduce: not decided (DESIGN.md 0.4)'])
_p('C14', 'proof', 'none == !some for every outcome of some (complete); all/some: empty and null collections are false, non-collections and failing collection evaluations are errors, a computed collection is evaluated once against the outer data (bounded shapes).',
   ['per-element behaviour and short-circuit of all/some over non-empty collections: not decided (DESIGN.md 0.4)'])
_p('C15', 'proof', 'in(n,[m]) == numeric equality for every pair of JSON numbers (complete); dispatch on the haystack kind (complete for null/bool/number/object haystacks); merge on bounded shapes.',
   ['deep membership of containers (serde_json PartialEq) and str::contains are trusted', 'merge with several array operands: not decided'])
_p('C16', 'proof', 'substr: no overflow / failed conversion for every string and every i64 (Verus, verbatim); substr output = the character slice of the statement for EVERY i64 start/length on abstract strings of 0..3 characters (Chars by contract, real Skip/Take/collect; bounded in the string length); cat = concatenation of string forms (bounded operands, to_string by contract).',
   ['to_string itself (string forms of arrays/numbers) is not under contract'])


# C01 (totality) is carried by obligations of many functions; its *quick* tier runs this curated subset of the Kani
# obligations tagged C01 (every Verus unit tagged C01 always runs); the thorough tier runs all of them.
QUICK_ONLY = {
    'C04': r'^(C11\.var\..*|C05\.(or|and)\.2\.(NR|NE)|C05\.if\.(2\.NR|3\.NRN)|C05\.or\.1\.N|C04\.operation_evaluate\.0|C14\.(all|some)\.(litnull|cnull|litnum)\..*|C13\.(map|filter)\.(null|other)\..*)$',
    'C01': r'^(C10\.to_number_value\.exact|C01\.abstract_plus\..*|C11\.get\.all_i64|C10\.abstract_minus|C10\.abstract_(div|mod)\.errors|'
           r'C10\.to_negative|C10\.to_number\.(null|bool|num|str|arr)|C10\.parse_float\.(num|str|arr|true)|C06\.truthy\.(number|string0|string3)|'
           r'C02\.op_from_map\..*|C07\.abstract_eq\.(num_num|bool_str|num_arr|str_obj|null_num)|C08\.strict_eq\.(num_num|str_str|arr_obj)|'
           r'C16\.cat\.(str_num|none)|C15\.in\.(number_in_array|str_in_str|num_in_str|null_in_obj)|C11\.var\.(0\.str\.p0|1\.bool\.p0|2\.int\.p8)|'
           r'C10\.fold\.(add|max)\.(0\.empty|1\.N|2\.NN)|C15\.merge\.(none|pair))$',
}

# properties registered in MANIFEST.json (the others are listed under not_applicable with the reason below)
CLAIMED = ['C01', 'C02', 'C03', 'C04', 'C05', 'C06', 'C07', 'C08', 'C09', 'C10', 'C11', 'C13', 'C14', 'C15', 'C16']
NOT_YET = {
    'C12': 'missing / missing_some fold over an array held in a Value; Kani cannot decide such iterations here (enum payloads lose constant len/ptr in its union encoding: > 900 s / memory cap even for the empty list) and Verus rejects the fold/closure bodies. The contract harnesses exist (kani/op__data.rs, tier=off) but nothing decides the property, so it is not claimed (DESIGN.md section 0.4). The missing_some defect was repaired (known_findings.txt).',
}


def assumption_scan(prop, results):
    """Mechanical list of every assumption in force for this run."""
    out = []
    prelude = os.path.join(VERIF, 'verus', 'prelude.rs')
    if os.path.exists(prelude) and any(r['engine'] == 'verus' for r in results):
        txt = open(prelude).read()
        for m in re.finditer(r'assume_specification\s*(<[^>]*>)?\s*\[\s*([^\]]+)\]', txt):
            out.append('verus assume_specification: ' + ' '.join(m.group(2).split()))
        n_ext = len(re.findall(r'external_body', txt))
        if n_ext:
            out.append('verus external_body items in the shim prelude: %d (opaque serde_json types and un-specified callees)' % n_ext)
        for kw in ('admit(', 'assume('):
            c = len(re.findall(r'(?<![A-Za-z_])' + re.escape(kw), txt))
            if c:
                out.append('verus %s occurrences in prelude: %d' % (kw, c))
    # units
    vdir = os.path.join(VERIF, 'verus')
    if any(r['engine'] == 'verus' for r in results):
        for fn in sorted(os.listdir(vdir)):
            if fn.endswith('.vrs'):
                t = open(os.path.join(vdir, fn)).read()
                for kw in ('admit(', 'assume(', 'external_body'):
                    c = len(re.findall(r'(?<![A-Za-z_])' + re.escape(kw), t))
                    if c:
                        out.append('verus %s in %s: %d' % (kw, fn, c))
    stubs = set()
    for r in results:
        for s in r.get('stubs', []) or []:
            stubs.add(s)
    for s in sorted(stubs):
        out.append('kani stub (assumed contract / abstraction): ' + s)
    kdir = os.path.join(VERIF, 'kani')
    n_assume = 0
    for fn in sorted(os.listdir(kdir)):
        n_assume += len(re.findall(r'kani::assume\(', open(os.path.join(kdir, fn)).read()))
    out.append('kani::assume occurrences in all harness modules (input-domain preconditions; each harness carries kani::cover! reachability guards): %d' % n_assume)
    out.append('machine arithmetic: NOT idealised (Kani bit-precise IEEE-754 / two\'s complement; Verus exec integers bounded, spec integers mathematical)')
    out.append('usize is 64-bit (Verus: global size_of usize == 8; Kani: x86_64 target)')
    for r in results:
        if r['strength'].startswith('bounded'):
            out.append('BOUNDED (not a proof): %s -- %s' % (r['name'], r['strength']))
    return out

"""Mechanical extraction of items from Rust source text.

Nothing here understands Rust semantically: it is a lexer that knows about
comments, string / char literals and bracket nesting, used to cut the *text*
of a function, enum or table entry out of /repo's source so that the verified
text is demonstrably the text that is compiled.
"""
import re


class ExtractError(Exception):
    """Anchor lost / shape changed: the caller turns this into 'undecided'."""


def _skip_string(s, i):
    # s[i] == '"'
    i += 1
    n = len(s)
    while i < n:
        c = s[i]
        if c == '\\':
            i += 2
            continue
        if c == '"':
            return i + 1
        i += 1
    raise ExtractError("unterminated string literal")


def _skip_raw_string(s, i):
    # s[i] == 'r' and s[i+1] in '#"'
    j = i + 1
    hashes = 0
    while j < len(s) and s[j] == '#':
        hashes += 1
        j += 1
    if j >= len(s) or s[j] != '"':
        return None
    end = s.find('"' + '#' * hashes, j + 1)
    if end < 0:
        raise ExtractError("unterminated raw string")
    return end + 1 + hashes


def tokens_outside(s, start=0, end=None):
    """Yield (index, char) for every character of s[start:end] that is code
    (not inside a comment, string or char literal)."""
    n = len(s) if end is None else end
    i = start
    while i < n:
        c = s[i]
        if c == '/' and i + 1 < n and s[i + 1] == '/':
            j = s.find('\n', i)
            i = n if j < 0 else j
            continue
        if c == '/' and i + 1 < n and s[i + 1] == '*':
            depth = 1
            i += 2
            while i < n and depth:
                if s.startswith('/*', i):
                    depth += 1
                    i += 2
                elif s.startswith('*/', i):
                    depth -= 1
                    i += 2
                else:
                    i += 1
            continue
        if c == '"':
            i = _skip_string(s, i)
            continue
        if c == 'r' and i + 1 < n and s[i + 1] in '#"' and (i == 0 or not (s[i - 1].isalnum() or s[i - 1] == '_')):
            j = _skip_raw_string(s, i)
            if j is not None:
                i = j
                continue
        if c == 'b' and i + 1 < n and s[i + 1] == '"' and (i == 0 or not (s[i - 1].isalnum() or s[i - 1] == '_')):
            i = _skip_string(s, i + 1)
            continue
        if c == "'":
            # char literal or lifetime
            if i + 1 < n and s[i + 1] == '\\':
                j = s.find("'", i + 2)
                # '\'' case
                if j == i + 2:
                    j = s.find("'", i + 3)
                i = j + 1
                continue
            if i + 2 < n and s[i + 2] == "'":
                i += 3
                continue
            # lifetime: treat the tick as code-less
            i += 1
            continue
        yield i, c
        i += 1


def match_close(s, open_idx):
    """Index of the bracket closing the one at open_idx."""
    pairs = {'{': '}', '(': ')', '[': ']'}
    o = s[open_idx]
    cl = pairs[o]
    depth = 0
    for i, c in tokens_outside(s, open_idx):
        if c == o:
            depth += 1
        elif c == cl:
            depth -= 1
            if depth == 0:
                return i
    raise ExtractError("unbalanced %s at %d" % (o, open_idx))


def strip_comments(s):
    """Remove comments (keeps strings)."""
    out = []
    n = len(s)
    i = 0
    while i < n:
        c = s[i]
        if c == '/' and i + 1 < n and s[i + 1] == '/':
            j = s.find('\n', i)
            i = n if j < 0 else j
            continue
        if c == '/' and i + 1 < n and s[i + 1] == '*':
            j = s.find('*/', i + 2)
            i = n if j < 0 else j + 2
            continue
        if c == '"':
            j = _skip_string(s, i)
            out.append(s[i:j])
            i = j
            continue
        out.append(c)
        i += 1
    return ''.join(out)


def _code_mask(s):
    mask = bytearray(len(s))
    for i, _ in tokens_outside(s):
        mask[i] = 1
    return mask


def find_impl_blocks(s, header_regex):
    """Yield (body_open, body_close) of impl blocks whose header (text between
    'impl' and '{', whitespace-collapsed) matches header_regex fully."""
    mask = _code_mask(s)
    for m in re.finditer(r'\bimpl\b', s):
        if not mask[m.start()]:
            continue
        # header ends at first code '{'
        ob = None
        for i, c in tokens_outside(s, m.end()):
            if c == '{':
                ob = i
                break
            if c == ';':
                break
        if ob is None:
            continue
        header = ' '.join(s[m.start():ob].split())
        if re.fullmatch(header_regex, header):
            yield ob, match_close(s, ob)


def find_fn(s, name, lo=0, hi=None, depth_limit=True):
    """Locate `fn name` whose brace depth relative to s[lo:hi] is 0.
    Returns (item_start, sig_start, body_open, body_close) where item_start
    includes visibility / attributes-free start (the 'pub' if any)."""
    hi = len(s) if hi is None else hi
    depth = 0
    cand = []
    pat = re.compile(r'fn\s+' + re.escape(name) + r'\b')
    for i, c in tokens_outside(s, lo, hi):
        if c in '{':
            depth += 1
        elif c == '}':
            depth -= 1
        elif c == 'f' and depth == 0 and (i == 0 or not (s[i - 1].isalnum() or s[i - 1] == '_')):
            m = pat.match(s, i)
            if m:
                cand.append(i)
    if len(cand) != 1:
        raise ExtractError("expected exactly one `fn %s` at item level, found %d" % (name, len(cand)))
    fn_idx = cand[0]
    # body open: first code '{' at paren-depth 0 after fn
    pd = 0
    ob = None
    for i, c in tokens_outside(s, fn_idx, hi):
        if c in '([':
            pd += 1
        elif c in ')]':
            pd -= 1
        elif c == '{' and pd == 0:
            ob = i
            break
        elif c == ';' and pd == 0:
            raise ExtractError("fn %s has no body" % name)
    if ob is None:
        raise ExtractError("fn %s: no body" % name)
    cb = match_close(s, ob)
    # visibility prefix
    pre = s[lo:fn_idx]
    m = re.search(r'(pub(\s*\([^)]*\))?\s+)?((const|async|unsafe)\s+)*$', pre)
    item_start = lo + m.start() if m else fn_idx
    return item_start, fn_idx, ob, cb


def find_enum(s, name, kw='enum'):
    mask = _code_mask(s)
    for m in re.finditer(r'\b' + kw + r'\s+' + re.escape(name) + r'\b', s):
        if not mask[m.start()]:
            continue
        # must be at depth 0
        depth = 0
        for i, c in tokens_outside(s, 0, m.start()):
            if c == '{':
                depth += 1
            elif c == '}':
                depth -= 1
        if depth != 0:
            continue
        ob = s.index('{', m.end())
        return m.start(), ob, match_close(s, ob)
    raise ExtractError("enum %s not found at item level" % name)


def norm_sig(text):
    """Whitespace/visibility-insensitive form of a signature."""
    t = strip_comments(text)
    t = re.sub(r'^\s*pub(\s*\([^)]*\))?\s+', '', t)
    toks = re.findall(r"[A-Za-z_][A-Za-z0-9_]*|'[A-Za-z_][A-Za-z0-9_]*|->|::|[^\sA-Za-z_]", t)
    return toks


def split_top_commas(s):
    """Split s on commas that are at bracket depth 0 (code only)."""
    parts = []
    depth = 0
    last = 0
    for i, c in tokens_outside(s):
        if c in '({[':
            depth += 1
        elif c in ')}]':
            depth -= 1
        elif c == ',' and depth == 0:
            parts.append(s[last:i])
            last = i + 1
    tail = s[last:]
    if tail.strip():
        parts.append(tail)
    return parts


def parse_phf_table(s, const_name):
    """Extract entries of `pub const NAME: phf::Map<..> = phf_map! { "k" => Ty { f: v, .. }, .. };`
    Returns list of dicts {key, fields{name: text}}. The operator field is kept
    as text (caller decides what to do with it)."""
    m = re.search(r'\bconst\s+' + re.escape(const_name) + r'\b[^=]*=\s*phf_map!\s*\{', s)
    if not m:
        raise ExtractError("table %s not found" % const_name)
    ob = m.end() - 1
    cb = match_close(s, ob)
    body = strip_comments(s[ob + 1:cb])
    entries = []
    for part in split_top_commas(body):
        part = part.strip()
        if not part:
            continue
        mm = re.match(r'"((?:[^"\\]|\\.)*)"\s*=>\s*([A-Za-z_][A-Za-z0-9_]*)\s*\{', part)
        if not mm:
            raise ExtractError("table %s: unparsable entry %r" % (const_name, part[:40]))
        inner_open = mm.end() - 1
        inner_close = match_close(part, inner_open)
        fields = {}
        for f in split_top_commas(part[inner_open + 1:inner_close]):
            f = f.strip()
            if not f:
                continue
            fm = re.match(r'([A-Za-z_][A-Za-z0-9_]*)\s*:\s*(.*)$', f, re.S)
            if not fm:
                raise ExtractError("table %s: unparsable field %r" % (const_name, f[:40]))
            fields[fm.group(1)] = ' '.join(fm.group(2).split())
        entries.append({'key': mm.group(1), 'type': mm.group(2), 'fields': fields})
    return entries


def alpha_rename_reserved(body):
    """The one textual change made inside a body: identifiers that are reserved
    type names in Verus (`int`, `nat`) are renamed. Returns (new_body, renamed_list)."""
    renamed = []
    out = body
    for ident in ('int', 'nat'):
        # only touch code positions
        positions = []
        mask = _code_mask(out)
        for m in re.finditer(r'(?<![A-Za-z0-9_])' + ident + r'(?![A-Za-z0-9_])', out):
            if mask[m.start()]:
                positions.append(m.start())
        if positions:
            renamed.append(ident)
            for p in reversed(positions):
                out = out[:p] + ident + '__' + out[p + len(ident):]
    return out, renamed

"""V path: assemble one Verus file from real function text + contract headers, run it."""
import json
import os
import re
import subprocess
import time

from . import rustsrc
from .rustsrc import ExtractError

VERIF = os.path.dirname(os.path.dirname(os.path.abspath(__file__)))
CONTRACT_DIR = os.path.join(VERIF, 'verus')


class Unit:
    def __init__(self, kind, attrs, sections, path, line):
        self.kind = kind          # raw | fn | enum | table
        self.attrs = attrs
        self.sections = sections  # name -> text
        self.path = path
        self.line = line
        self.name = attrs.get('name', '?')
        self.props = [p for p in attrs.get('props', '').split(',') if p]
        self.needs = [p for p in attrs.get('needs', '').split(',') if p]
        self.tier = attrs.get('tier', 'quick')

    def __repr__(self):
        return 'Unit(%s %s)' % (self.kind, self.name)


def _parse_attrs(text):
    attrs = {}
    for m in re.finditer(r'(\w+)=("([^"]*)"|\S+)', text):
        attrs[m.group(1)] = m.group(3) if m.group(3) is not None else m.group(2)
    return attrs


def load_units():
    units = []
    for fn in sorted(os.listdir(CONTRACT_DIR)):
        if not fn.endswith('.vrs'):
            continue
        path = os.path.join(CONTRACT_DIR, fn)
        cur = None
        sec = None
        for ln, line in enumerate(open(path), 1):
            st = line.strip()
            if st.startswith('//@unit '):
                attrs = _parse_attrs(st[len('//@unit '):])
                cur = Unit(attrs.get('kind', 'fn'), attrs, {}, path, ln)
                sec = None
                continue
            if st.startswith('//@end'):
                if cur is not None:
                    units.append(cur)
                cur = None
                sec = None
                continue
            if cur is not None and st.startswith('//@ ') and sec is None:
                cur.attrs.update(_parse_attrs(st[4:]))
                continue
            if cur is not None and st.startswith('//@') and not st.startswith('//@ '):
                sec = st[3:].split()[0]
                cur.sections[sec] = ''
                more = st[3 + len(sec):].strip()
                if more:
                    cur.attrs.update(_parse_attrs(more))
                continue
            if cur is not None and sec is not None:
                cur.sections[sec] += line
    names = [u.name for u in units]
    assert len(names) == len(set(names)), "duplicate unit names"
    return units


def select_units(units, prop, tier):
    byname = {u.name: u for u in units}
    chosen = []
    seen = set()

    def add(u):
        if u.name in seen:
            return
        seen.add(u.name)
        for n in u.needs:
            if n not in byname:
                raise KeyError("unit %s needs unknown %s" % (u.name, n))
            add(byname[n])
        chosen.append(u)

    for u in units:
        if prop in u.props and (tier == 'thorough' or u.tier == 'quick'):
            add(u)
    return chosen


def _header_sig_tokens(sig_text):
    """Header signature with the named return `-> (r: T)` turned back into `-> T`."""
    t = rustsrc.strip_comments(sig_text)
    m = re.search(r'->\s*\(\s*[A-Za-z_][A-Za-z0-9_]*\s*:', t)
    if m:
        # find matching close paren
        op = t.index('(', m.start())
        cl = rustsrc.match_close(t, op)
        inner = t[op + 1:cl]
        inner = inner.split(':', 1)[1]
        t = t[:op] + inner + t[cl + 1:]
    return rustsrc.norm_sig(t)


def emit_fn_unit(u, repo_root):
    """Return (text, meta). Raises ExtractError when the anchor is lost."""
    src_rel = u.attrs['file']
    fname = u.attrs['fn']
    impl_re = u.attrs.get('impl')
    src = open(os.path.join(repo_root, src_rel)).read()
    lo, hi = 0, len(src)
    if impl_re:
        blocks = list(rustsrc.find_impl_blocks(src, impl_re))
        blocks = [b for b in blocks if re.search(r'\bfn\s+' + re.escape(fname) + r'\b', src[b[0]:b[1]])]
        if len(blocks) != 1:
            raise ExtractError("%s: impl block /%s/ containing fn %s: found %d" % (src_rel, impl_re, fname, len(blocks)))
        lo, hi = blocks[0][0] + 1, blocks[0][1]
    item_start, fn_idx, ob, cb = rustsrc.find_fn(src, fname, lo, hi)
    src_sig = src[item_start:ob]
    body = src[ob:cb + 1]
    hdr_sig = u.sections.get('sig', '')
    spec = u.sections.get('spec', '')
    a = rustsrc.norm_sig(src_sig)
    b = _header_sig_tokens(hdr_sig)
    if a != b:
        raise ExtractError("%s::%s: signature in source differs from contract header\n  source: %s\n  header: %s"
                           % (src_rel, fname, ' '.join(a), ' '.join(b)))
    body2, renamed = rustsrc.alpha_rename_reserved(body)
    line_no = src.count('\n', 0, ob) + 1
    text = hdr_sig.rstrip() + '\n' + spec.rstrip() + '\n' + body2 + '\n'
    wrap = u.attrs.get('wrap')
    if wrap:
        text = wrap + ' {\n' + text + '}\n'
    meta = {'file': src_rel, 'fn': fname, 'line': line_no, 'renamed': renamed,
            'body_lines': body.count('\n') + 1}
    return text, meta


def emit_enum_unit(u, repo_root):
    src_rel = u.attrs['file']
    name = u.attrs.get('enum') or u.attrs.get('struct')
    src = open(os.path.join(repo_root, src_rel)).read()
    st, ob, cb = rustsrc.find_enum(src, name, 'struct' if 'struct' in u.attrs else 'enum')
    body = rustsrc.strip_comments(src[st:cb + 1])
    body = re.sub(r'#\[[^\]]*\]', '', body)   # drops #[error(..)] / #[derive(..)] attributes
    text = 'pub ' + body + '\n'
    return text, {'file': src_rel, 'enum': name, 'line': src.count('\n', 0, st) + 1}


TABLES = {'OPERATOR_MAP': 'eager', 'DATA_OPERATOR_MAP': 'data', 'LAZY_OPERATOR_MAP': 'lazy'}


def read_tables(repo_root):
    src = open(os.path.join(repo_root, 'src/op/mod.rs')).read()
    out = {}
    for const, kind in TABLES.items():
        out[kind] = rustsrc.parse_phf_table(src, const)
    return out


def np_to_verus(text):
    """`NumParams::Variadic(2..4)` stays valid Verus; just sanity check shape."""
    t = text.strip()
    if not re.fullmatch(r'NumParams::(None|Any|Unary|Exactly\(\d+\)|AtLeast\(\d+\)|Variadic\(\d+\.\.\d+\))', t):
        raise ExtractError("unrecognised arity descriptor %r" % t)
    return t


def run_verus(path, timeout=600):
    t0 = time.time()
    p = subprocess.run(['verus', path, '--output-json', '--time', '--multiple-errors', '50'],
                       stdout=subprocess.PIPE, stderr=subprocess.PIPE, text=True, timeout=timeout,
                       cwd=os.path.dirname(path))
    wall = time.time() - t0
    js = None
    try:
        js = json.loads(p.stdout)
    except Exception:
        m = re.search(r'\{.*\}\s*$', p.stdout, re.S)
        if m:
            try:
                js = json.loads(m.group(0))
            except Exception:
                js = None
    return p.returncode, js, p.stderr, wall


def parse_errors(stderr):
    """Return list of {msg, line} from rustc-style diagnostics."""
    errs = []
    cur = None
    for line in stderr.splitlines():
        m = re.match(r'error(\[E\d+\])?: (.*)', line)
        if m:
            cur = {'msg': m.group(2), 'line': None, 'lines': []}
            errs.append(cur)
            continue
        m = re.match(r'\s*--> [^:]+:(\d+):(\d+)', line)
        if m and cur is not None:
            if cur['line'] is None:
                cur['line'] = int(m.group(1))
            cur['lines'].append(int(m.group(1)))
    return [e for e in errs if not e['msg'].startswith('aborting due to')]

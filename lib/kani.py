"""K path: append cfg(kani) contract/harness modules to a scratch copy of the real crate and run Kani."""
import json
import os
import re
import shutil
import subprocess
import time

VERIF = os.path.dirname(os.path.dirname(os.path.abspath(__file__)))
KANI_DIR = os.path.join(VERIF, 'kani')

# file in /verif/kani  ->  (source file it is appended to, module path prefix)
TARGETS = {
    'lib.rs': ('src/lib.rs', ''),
    'value.rs': ('src/value.rs', 'value::'),
    'js_op.rs': ('src/js_op.rs', 'js_op::'),
    'op__mod.rs': ('src/op/mod.rs', 'op::'),
    'op__logic.rs': ('src/op/logic.rs', 'op::logic::'),
    'op__numeric.rs': ('src/op/numeric.rs', 'op::numeric::'),
    'op__string.rs': ('src/op/string.rs', 'op::string::'),
    'op__data.rs': ('src/op/data.rs', 'op::data::'),
    'op__array.rs': ('src/op/array.rs', 'op::array::'),
    'op__impure.rs': ('src/op/impure.rs', 'op::impure::'),
}


class Ob:
    def __init__(self, attrs, harness, modpath, file, line):
        self.attrs = attrs
        self.harness = harness
        self.full = modpath + harness
        self.name = attrs.get('name', harness)
        self.props = [p for p in attrs.get('props', '').split(',') if p]
        self.tier = attrs.get('tier', 'quick')
        self.strength = attrs.get('strength', 'bounded')
        self.bound = attrs.get('bound', '')
        self.fns = [p for p in attrs.get('fns', '').split(',') if p]
        self.replay = attrs.get('replay', 'none')
        self.desc = attrs.get('desc', '')
        self.group = attrs.get('group', 'light')
        self.cut_drop = attrs.get('cutdrop', 'no') == 'yes'
        self.timeout = int(attrs.get('timeout', '300'))
        self.file = file
        self.line = line


def _parse_attrs(text):
    attrs = {}
    for m in re.finditer(r'(\w+)=("([^"]*)"|\S+)', text):
        attrs[m.group(1)] = m.group(3) if m.group(3) is not None else m.group(2)
    return attrs


def load_obligations():
    obs = []
    for fn in sorted(os.listdir(KANI_DIR)):
        if fn not in TARGETS:
            continue
        _, prefix = TARGETS[fn]
        path = os.path.join(KANI_DIR, fn)
        lines = open(path).read().split('\n')
        # module stack: track `mod NAME {` at start of line for prefixing
        mod_stack = []
        depth = 0
        pending = None
        for ln, line in enumerate(lines, 1):
            st = line.strip()
            if st.startswith('//@ob '):
                pending = (_parse_attrs(st[6:]), ln)
                if 'harness' in pending[0]:
                    a, l = pending
                    modp = prefix + ''.join(m + '::' for m, _ in mod_stack)
                    obs.append(Ob(a, a['harness'], modp, fn, l))
                    pending = None
                continue
            if st.startswith('//@ ') and pending is not None:
                pending[0].update(_parse_attrs(st[4:]))
                continue
            if st.startswith('//'):
                continue
            m = re.match(r'\s*(pub(\([a-z]+\))?\s+)?mod\s+(\w+)\s*\{', line)
            if m:
                mod_stack.append((m.group(3), depth))
            if pending is not None:
                m2 = re.search(r'\bfn\s+(\w+)\s*\(', line)
                if m2:
                    a, l = pending
                    modp = prefix + ''.join(mm + '::' for mm, _ in mod_stack)
                    obs.append(Ob(a, m2.group(1), modp, fn, l))
                    pending = None
            # crude brace tracking (harness files are ours: no braces in strings at mod level)
            code = re.sub(r'"(\\.|[^"\\])*"', '""', line)
            code = re.sub(r"'(\\.|[^'\\])'", "' '", code)
            code = code.split('//')[0]
            depth += code.count('{') - code.count('}')
            while mod_stack and depth <= mod_stack[-1][1]:
                mod_stack.pop()
    names = [o.name for o in obs]
    dup = set(n for n in names if names.count(n) > 1)
    assert not dup, "duplicate obligation names: %s" % dup
    return obs


def append_modules(scratch):
    """Purely additive: every kani/*.rs is appended to its source file."""
    for fn, (target, _) in TARGETS.items():
        p = os.path.join(KANI_DIR, fn)
        if not os.path.exists(p):
            continue
        tp = os.path.join(scratch, target)
        if not os.path.exists(tp):
            raise FileNotFoundError(target)
        with open(tp, 'a') as f:
            f.write('\n\n// ===== appended by /verif (cfg(kani) / cfg(verif_replay) only) =====\n')
            f.write(open(p).read())
    # offline config
    os.makedirs(os.path.join(scratch, '.cargo'), exist_ok=True)
    cfgp = os.path.join(scratch, '.cargo', 'config.toml')
    cur = open(cfgp).read() if os.path.exists(cfgp) else ''
    if not re.search(r'^\[net\]', cur, re.M):
        with open(cfgp, 'a') as f:
            f.write('\n[net]\noffline = true\n')


def _env():
    env = dict(os.environ)
    env['CARGO_NET_OFFLINE'] = 'true'
    env.pop('RUSTFLAGS', None)
    return env


BASE_FLAGS = ['--lib', '-Z', 'stubbing', '-Z', 'function-contracts', '-Z', 'unstable-options',
              '--no-overflow-checks', '--output-format', 'terse']


def run_harnesses(scratch, obs, jobs, mem_kb, timeout_s, tag, cbmc_args=None, log_dir=None):
    """Run the given obligations in one cargo-kani invocation. Returns (results_by_full_name, raw_log, wall)."""
    out_json = os.path.join(scratch, 'kani_%s.json' % tag)
    if os.path.exists(out_json):
        os.remove(out_json)
    cmd = ['cargo', 'kani'] + BASE_FLAGS + ['-j', str(jobs), '--export-json', out_json,
                                           '--harness-timeout', '%ds' % timeout_s, '--exact']
    for o in obs:
        cmd += ['--harness', o.full]
    if cbmc_args:
        cmd += ['--cbmc-args'] + cbmc_args
    shell = 'ulimit -v %d; exec "$@"' % mem_kb
    t0 = time.time()
    overall = timeout_s * max(1, (len(obs) + jobs - 1) // jobs) + 600
    try:
        p = subprocess.run(['bash', '-c', shell, 'bash'] + cmd, cwd=scratch, env=_env(),
                           stdout=subprocess.PIPE, stderr=subprocess.STDOUT, text=True, timeout=overall)
        log = p.stdout
        rc = p.returncode
    except subprocess.TimeoutExpired as e:
        log = (e.stdout or '') if isinstance(e.stdout, str) else (e.stdout or b'').decode('utf8', 'replace')
        rc = -9
        subprocess.run(['pkill', '-9', 'cbmc'])
    wall = time.time() - t0
    if log_dir:
        with open(os.path.join(log_dir, 'kani_%s.log' % tag), 'w') as f:
            f.write(' '.join(cmd) + '\n' + log)
    results = {}
    data = None
    if os.path.exists(out_json):
        try:
            data = json.load(open(out_json))
        except Exception:
            data = None
    stub_lines = {}
    cur = {}   # per worker thread: the harness whose lines are being printed
    for line in log.splitlines():
        tm = re.match(r'^Thread (\d+): (.*)$', line)
        tid, body = (tm.group(1), tm.group(2)) if tm else ('-', line)
        m = re.match(r'Checking harness (\S+?)\.\.\.', body)
        if m:
            cur[tid] = m.group(1)
            stub_lines.setdefault(m.group(1), [])
            continue
        m = re.match(r'\s*- Stub: (.*)', body)
        if m and tid in cur:
            stub_lines[cur[tid]].append(' '.join(m.group(1).split()))
    if data is not None:
        stats = {c['harness_id']: (c.get('cbmc_stats') or {}) for c in data.get('cbmc', [])}
        pdet = {c['harness_id']: (c.get('property_details') or {}) for c in data.get('property_details', [])}
        edet = {c['harness_id']: c for c in data.get('error_details', [])}
        for r in data.get('verification_results', {}).get('results', []):
            hid = r['harness_id']
            failed = [c for c in r.get('checks', []) if c.get('status') not in ('Success', 'Unreachable', 'Satisfied', 'Covered')]
            results[hid] = {
                'status': r.get('status'),
                'duration_s': r.get('duration_ms', 0) / 1000.0,
                'nonpassing': [{'status': c.get('status'), 'description': c.get('description'),
                                'category': c.get('category'), 'function': c.get('function'),
                                'location': '%s:%s' % (c.get('location', {}).get('file'), c.get('location', {}).get('line'))}
                               for c in failed],
                'n_checks': len(r.get('checks', [])),
                'property_details': pdet.get(hid, {}),
                'error': edet.get(hid, {}),
                'solver_s': stats.get(hid, {}).get('runtime_decision_procedure_s'),
                'symex_s': stats.get(hid, {}).get('runtime_symex_s'),
                'stubs': stub_lines.get(hid, []),
            }
    return results, log, wall, rc


def classify(res, ob):
    """-> (status, detail) with status in discharged | failed | undecided."""
    if res is None:
        return 'undecided', 'no result from Kani for this harness (compile error, timeout or crash)'
    pd = res.get('property_details', {})
    st = res.get('status')
    nonpassing = res.get('nonpassing', [])
    real_fail = [c for c in nonpassing if c['status'] == 'Failure' and c.get('category') != 'unwind'
                 and 'unwinding assertion' not in (c.get('description') or '')
                 and 'recursion unwinding' not in (c.get('description') or '')]
    unwind_fail = [c for c in nonpassing if c['status'] == 'Failure' and c not in real_fail]
    undet = [c for c in nonpassing if c['status'] in ('Undetermined', 'Error', 'SolverError')]
    unsat_cover = [c for c in nonpassing if c['status'] in ('Unsatisfiable', 'Uncovered')]
    unsupported = [c for c in real_fail if (c.get('category') in ('unsupported_construct', 'unsupported'))
                   or 'not currently supported by Kani' in (c.get('description') or '')]
    if unsupported:
        return 'undecided', 'reached a construct Kani cannot translate: %s' % unsupported[0]['description']
    if real_fail and not unwind_fail:
        return 'failed', '; '.join('%s [%s]' % (c['description'], c['location']) for c in real_fail[:4])
    if real_fail and unwind_fail:
        # a real failure next to an unwinding failure: the trace of the real failure is still a valid trace
        return 'failed', '; '.join('%s [%s]' % (c['description'], c['location']) for c in real_fail[:4])
    if unwind_fail:
        return 'undecided', 'unwinding assertion failed (harness bound too small for this code): %s' % unwind_fail[0]['description']
    if undet:
        return 'undecided', 'undetermined checks: %s' % undet[0]['description']
    if st != 'Success':
        err = res.get('error', {})
        return 'undecided', 'harness did not complete: %s' % (err.get('error_type') or err.get('exit_status') or st)
    if unsat_cover:
        return 'undecided', 'cover not satisfiable (vacuity guard): %s' % unsat_cover[0]['description']
    # every stub requested must have been applied
    want = int(ob.attrs.get('stubs', '0'))
    if len(res.get('stubs', [])) < want:
        return 'undecided', 'expected %d stubs applied, Kani reports %d' % (want, len(res.get('stubs', [])))
    if res.get('n_checks', 0) == 0:
        return 'undecided', 'zero checks generated'
    return 'discharged', ''


def concrete_playback(scratch, ob, mem_kb, timeout_s, cbmc_args=None, log_dir=None):
    """Re-run one failing harness to obtain the concrete values of its kani::any() draws."""
    cmd = ['cargo', 'kani'] + BASE_FLAGS + ['-Z', 'concrete-playback', '--concrete-playback', 'print',
                                           '--harness-timeout', '%ds' % timeout_s, '--exact', '--harness', ob.full]
    if cbmc_args:
        cmd += ['--cbmc-args'] + cbmc_args
    shell = 'ulimit -v %d; exec "$@"' % mem_kb
    try:
        p = subprocess.run(['bash', '-c', shell, 'bash'] + cmd, cwd=scratch, env=_env(),
                           stdout=subprocess.PIPE, stderr=subprocess.STDOUT, text=True, timeout=timeout_s + 300)
    except subprocess.TimeoutExpired:
        return None, ''
    log = p.stdout
    if log_dir:
        with open(os.path.join(log_dir, 'playback_%s.log' % ob.harness), 'w') as f:
            f.write(log)
    # One generated test per failing check AND per satisfied cover; Kani de-duplicates tests with identical
    # values, so the failing input may be filed under a cover. Candidates: non-cover tests first, then cover tests.
    cands = []
    for blk in re.split(r'(?=/// Test generated for harness)', log):
        cm = re.search(r"/// Check for `([a-z_]+)`: (.*)", blk)
        m = re.search(r'let concrete_vals: Vec<Vec<u8>> = vec!\[(.*?)\n\s*\];', blk, re.S)
        if not cm or not m:
            continue
        vals = []
        comments = []
        last_comment = None
        for line in m.group(1).splitlines():
            line = line.strip()
            if line.startswith('//'):
                last_comment = line[2:].strip()
            mm = re.match(r'vec!\[([0-9, ]*)\],?', line)
            if mm:
                vals.append([int(x) for x in mm.group(1).replace(' ', '').split(',') if x])
                comments.append(last_comment)
                last_comment = None
        cands.append({'vals': vals, 'comments': comments, 'kind': cm.group(1), 'check': cm.group(2)})
    cands.sort(key=lambda c: c['kind'] == 'cover')
    if not cands:
        return None, log
    return cands, log


DROP_RECURSION = ['std::ptr::drop_in_place::<serde_json::Value>', 'std::ptr::drop_glue::<serde_json::Value>',
                  "std::ptr::drop_in_place::<value::Parsed<'_>>", "std::ptr::drop_glue::<value::Parsed<'_>>"]
DROP_LOOPS_RE = [
    r'^std::ptr::drop_glue::<\[serde_json::Value\]>$',
    r"^std::ptr::drop_glue::<\[value::Parsed<'_>\]>$",
    r'^<std::collections::btree_map::IntoIter<std::string::String, serde_json::Value> as std::ops::Drop>::drop$',
    r'^alloc::collections::btree::navigate::<impl .*marker::Dying, std::string::String, serde_json::Value, .*>::(deallocating_next|deallocating_end|first_leaf_edge)(::<.*>)?$',
]


def codegen_only(scratch, obs, log_dir=None, tag='codegen'):
    cmd = ['cargo', 'kani'] + BASE_FLAGS + ['--only-codegen', '--exact']
    for o in obs:
        cmd += ['--harness', o.full]
    p = subprocess.run(cmd, cwd=scratch, env=_env(), stdout=subprocess.PIPE, stderr=subprocess.STDOUT, text=True, timeout=1200)
    if log_dir:
        with open(os.path.join(log_dir, 'kani_%s.log' % tag), 'w') as f:
            f.write(p.stdout)
    return p.returncode, p.stdout


def _ids_of(out, depth):
    ids = {}
    p = subprocess.run(['goto-instrument', '--list-goto-functions', out], stdout=subprocess.PIPE,
                       stderr=subprocess.DEVNULL, text=True, timeout=600)
    for line in p.stdout.splitlines():
        m = re.match(r'^(.*) /\* (\S+) \*/$', line)
        if not m:
            continue
        pretty, mangled = m.group(1).strip(), m.group(2)
        if pretty in DROP_RECURSION:
            ids[mangled] = '%s:%d' % (mangled, depth)
        else:
            for rx in DROP_LOOPS_RE:
                if re.match(rx, pretty):
                    # slice-drop loops: depth+1 iterations (a harness may really drop that many elements);
                    # BTreeMap dying-iterator loops: 1 (harnesses only ever drop EMPTY maps: zero iterations; a harness
                    # that drops a non-empty map fails the unwinding assertion -> undecided)
                    k = 1 if 'btree' in pretty else depth + 1
                    ids[mangled + '.0'] = '%s.0:%d' % (mangled, k)
    return ids


def drop_cut_unwindsets(scratch, obs, depth):
    """Identifiers (mangled, with crate hashes: looked up on every run, in each harness's own goto binary) of the
    Value / Parsed drop glue. Recursion of drop_in_place/drop_glue is limited to `depth`, the container-drop loops
    to `depth`+1 iterations; unwinding assertions stay ON, so a harness that would drop deeper FAILS its unwinding
    assertion (-> undecided) instead of silently ignoring the drop. CBMC rejects identifiers that are not in the
    binary, so harnesses are grouped by the identifier set their own binary contains.
    Returns {unwindset string (may be ''): [obligations]} or None when a binary is missing."""
    outs = []
    for dp, dn, fn in os.walk(os.path.join(scratch, 'target', 'kani')):
        for f in fn:
            if f.endswith('.out') and not f.endswith('.symtab.out'):
                outs.append(os.path.join(dp, f))
    groups = {}
    for o in obs:
        mine = [x for x in outs if x.endswith(o.harness + '.out')]
        if not mine:
            return None
        ids = _ids_of(mine[0], depth)
        groups.setdefault(','.join(sorted(ids.values())), []).append(o)
    return groups


def drop_cut_unwindset(scratch, obs, depth):
    g = drop_cut_unwindsets(scratch, obs, depth)
    if not g:
        return None
    return sorted(g.keys(), key=len)[-1]


REPLAY_MAIN = '''
fn main() {
    let r = std::panic::catch_unwind(|| { jsonlogic_rs::verif_replay_entry(); });
    match r {
        Ok(()) => { println!("REPLAY-RESULT: harness completed, no assertion failed"); std::process::exit(0); }
        Err(e) => {
            let msg = if let Some(s) = e.downcast_ref::<String>() { s.clone() } else if let Some(s) = e.downcast_ref::<&str>() { s.to_string() } else { String::from("<panic>") };
            if msg.contains("VERIF_ASSUME_FAILED") { println!("REPLAY-RESULT: assumption not met by concrete values"); std::process::exit(3); }
            if msg.contains("VERIF_OUT_OF_VALUES") { println!("REPLAY-RESULT: concrete value list exhausted (draw order mismatch)"); std::process::exit(4); }
            println!("REPLAY-RESULT: FAILED on the real code: {}", msg); std::process::exit(1);
        }
    }
}
'''


def build_replay(scratch, ob, vals, log_dir=None):
    """Compile the harness itself as ordinary Rust (cfg(verif_replay): kani::any() reads the concrete
    values, stubs are NOT applied so every callee is the real one) and run it. Returns (reproduced, output, source)."""
    lib = os.path.join(scratch, 'src/lib.rs')
    target, prefix = TARGETS[ob.file]
    local = ob.full[len(prefix):]
    vals_txt = ', '.join('vec![%s]' % ', '.join(str(b) for b in v) for v in vals)
    # the entry lives in the harness's own source file (its module may be private); lib.rs reaches it by symbol
    entry = ('\n#[cfg(verif_replay)]\n#[no_mangle]\npub extern "Rust" fn verif_replay_entry_sym() {\n'
             '    crate::verif_support::shim::set_values(vec![%s]);\n    %s();\n}\n' % (vals_txt, local))
    glue = ('\n#[cfg(verif_replay)]\nextern "Rust" {\n    fn verif_replay_entry_sym();\n}\n'
            '#[cfg(verif_replay)]\npub fn verif_replay_entry() {\n    unsafe { verif_replay_entry_sym() }\n}\n')
    rx = r'\n#\[cfg\(verif_replay\)\]\n#\[no_mangle\]\npub extern "Rust" fn verif_replay_entry_sym\(\) \{.*?\n\}\n'
    for fn_, (tgt, _) in TARGETS.items():
        tp = os.path.join(scratch, tgt)
        cur = open(tp).read()
        new_cur = re.sub(rx, '', cur, flags=re.S)
        if tgt == target:
            new_cur += entry
        if tgt == 'src/lib.rs' and 'fn verif_replay_entry()' not in new_cur:
            new_cur += glue
        if new_cur != cur:
            open(tp, 'w').write(new_cur)
    rdir = os.path.join(scratch, 'verif_replay_runner')
    os.makedirs(os.path.join(rdir, 'src'), exist_ok=True)
    with open(os.path.join(rdir, 'Cargo.toml'), 'w') as f:
        f.write('[package]\nname = "verif_replay_runner"\nversion = "0.0.0"\nedition = "2018"\n\n'
                '[dependencies]\njsonlogic-rs = { path = ".." }\n\n[workspace]\n\n'
                '[profile.dev]\noverflow-checks = true\ndebug = false\n')
    with open(os.path.join(rdir, 'src/main.rs'), 'w') as f:
        f.write(REPLAY_MAIN)
    shutil.copy(os.path.join(scratch, 'Cargo.lock'), os.path.join(rdir, 'Cargo.lock'))
    env = _env()
    env['RUSTFLAGS'] = '--cfg verif_replay -A warnings'
    cache = os.path.join(VERIF, '.cache', 'replay-target')
    os.makedirs(cache, exist_ok=True)
    env['CARGO_TARGET_DIR'] = cache
    p = subprocess.run(['cargo', 'run', '--offline', '-q'], cwd=rdir, env=env,
                       stdout=subprocess.PIPE, stderr=subprocess.STDOUT, text=True, timeout=900)
    out = p.stdout
    if log_dir:
        with open(os.path.join(log_dir, 'replay_%s.log' % ob.harness), 'w') as f:
            f.write(out)
    reproduced = (p.returncode == 1 and 'REPLAY-RESULT: FAILED on the real code' in out)
    return reproduced, out, entry
